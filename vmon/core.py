"""Monitor registry, counters, three-valued verdicts, replay and evidence writers."""
from __future__ import annotations

import fnmatch
import hashlib
import json
import os
import sys
import time
import traceback

import numpy as np

from . import REPO, VERIF_DIR

PROP_NUM = {f"C{i:02d}": i for i in range(1, 21)}


# --------------------------------------------------------------------------- helpers
def jsonable(x, depth=0):
    """Best-effort conversion of case data into JSON (arrays written out in full)."""
    if depth > 8:
        return repr(x)
    if x is None or isinstance(x, (bool, int, str)):
        return x
    if isinstance(x, float):
        if x != x or x in (float("inf"), float("-inf")):
            return repr(x)
        return x
    if isinstance(x, complex):
        return {"re": jsonable(x.real), "im": jsonable(x.imag)}
    if isinstance(x, (np.bool_,)):
        return bool(x)
    if isinstance(x, np.integer):
        return int(x)
    if isinstance(x, np.floating):
        return jsonable(float(x))
    if isinstance(x, np.complexfloating):
        return jsonable(complex(x))
    if isinstance(x, np.ndarray):
        if x.size > 20000:
            return {"ndarray_shape": list(x.shape), "dtype": str(x.dtype), "digest": digest(x)}
        if np.iscomplexobj(x):
            return {"re": jsonable(x.real.tolist(), depth + 1), "im": jsonable(x.imag.tolist(), depth + 1)}
        return jsonable(x.tolist(), depth + 1)
    if isinstance(x, dict):
        return {str(k): jsonable(v, depth + 1) for k, v in x.items()}
    if isinstance(x, (list, tuple, set)):
        return [jsonable(v, depth + 1) for v in x]
    if hasattr(x, "__dataclass_fields__"):
        return {k: jsonable(getattr(x, k), depth + 1) for k in x.__dataclass_fields__}
    return repr(x)


def digest(*objs) -> str:
    """Stable short digest of arrays / scalars / strings / nested containers."""
    h = hashlib.blake2b(digest_size=8)

    def feed(o):
        if isinstance(o, np.ndarray):
            h.update(str(o.dtype).encode())
            h.update(str(o.shape).encode())
            h.update(np.ascontiguousarray(o).tobytes())
        elif isinstance(o, (list, tuple)):
            h.update(b"[")
            for v in o:
                feed(v)
            h.update(b"]")
        elif isinstance(o, dict):
            for k in sorted(o, key=str):
                h.update(str(k).encode())
                feed(o[k])
        elif hasattr(o, "__dataclass_fields__"):
            for k in o.__dataclass_fields__:
                feed(getattr(o, k))
        else:
            h.update(repr(o).encode())

    for o in objs:
        feed(o)
    return h.hexdigest()


class Inconclusive(Exception):
    pass


class FailFast(BaseException):
    """Self-test only (VERIF_FAILFAST=1): stop the shard at the first violation that is not a recorded known finding, so that a mutation
    campaign of thousands of runs does not pay for the rest of the workload.  Derives from BaseException so that no `except Exception`
    around observed code swallows it.  Never set by a registered check."""


# --------------------------------------------------------------------------- context
class Ctx:
    """Everything a property driver needs: RNG, budgets, monitors, verdict bookkeeping."""

    def __init__(self, pid, tier="quick", seed=0, shard=0, nshards=1, replay=None):
        self.pid = pid
        self.tier = tier
        self.seed = int(seed)
        self.shard = shard
        self.nshards = nshards
        self.replay = replay
        self.t0 = time.time()
        self.evaluations = 0
        self.digests = set()
        self.classes = {}
        self.monitors = {}
        self.violations = []
        self.samples = []
        self.notes = []
        self.insitu = {}
        self.extra = {}
        self._case_no = 0
        self._viol_keys = {}
        self.max_violations_per_key = 3
        self.deadline = None

    # ---- budgets / rng
    def n(self, quick, thorough=None):
        """cases for this process: `quick` total in the quick tier, `thorough` per shard otherwise."""
        if self.tier == "quick":
            tot = int(quick)
            per = tot // self.nshards + (1 if self.shard < tot % self.nshards else 0)
            return max(per, 1)
        return int(thorough if thorough is not None else quick * 4)

    def rng(self, *extra):
        self._case_no += 1
        key = [self.seed, PROP_NUM.get(self.pid, 99), self.shard, self._case_no, *[int(e) for e in extra]]
        self._last_key = key
        return np.random.default_rng(key)

    @property
    def thorough(self):
        return self.tier == "thorough"

    # ---- bookkeeping
    def case(self, cls, *dig, nontrivial=True, sample=None):
        """Register one executed case of workload class `cls`."""
        self.evaluations += 1
        self.classes[cls] = self.classes.get(cls, 0) + 1
        if nontrivial and dig:
            self.digests.add(digest(*dig))
        if sample is not None and len(self.samples) < 3 and not any(s.get("class") == cls for s in self.samples):
            self.samples.append({"class": cls, **jsonable(sample)})

    def mon(self, name):
        m = self.monitors.get(name)
        if m is None:
            m = self.monitors[name] = {"comparisons": 0, "skipped_ties": 0, "max_err": 0.0, "violations": 0}
        return m

    def skip(self, monitor, n=1):
        self.mon(monitor)["skipped_ties"] += n

    def count(self, monitor, n=1):
        self.mon(monitor)["comparisons"] += n

    def violation(self, key, what, data=None, monitor=None):
        """Record a violation. `key` names mechanism + input predicate (never a seed)."""
        if monitor:
            self.mon(monitor)["violations"] += 1
        k = self._viol_keys.get(key, 0)
        self._viol_keys[key] = k + 1
        if k >= self.max_violations_per_key:
            return
        entry = {"property": self.pid, "key": key, "what": str(what)[:2000], "tier": self.tier,
                 "seed": self.seed, "shard": self.shard, "rng_key": getattr(self, "_last_key", None),
                 "data": jsonable(data) if data is not None else None}
        self.violations.append(entry)
        if os.environ.get("VERIF_FAILFAST") and not match_known(entry, load_known()):
            raise FailFast(key)

    def check(self, monitor, ok, key, what="", data=None):
        m = self.mon(monitor)
        m["comparisons"] += 1
        if not ok:
            self.violation(key, what() if callable(what) else what, data() if callable(data) else data, monitor)
        return bool(ok)

    def close(self, monitor, obs, ref, key, rtol=1e-9, atol=0.0, scale=None, what="", data=None, n=None):
        """|obs-ref| <= atol + rtol*scale elementwise (NaN never matches, inf must match exactly)."""
        obs = np.asarray(obs)
        ref = np.asarray(ref)
        m = self.mon(monitor)
        if obs.shape != ref.shape:
            m["comparisons"] += 1
            self.violation(key + "/shape", f"{what} shape {obs.shape} != expected {ref.shape}",
                           data() if callable(data) else data, monitor)
            return False
        if obs.size == 0:
            return True
        if obs.dtype == object or ref.dtype == object:
            m["comparisons"] += 1
            self.violation(key + "/dtype", f"{what} object dtype", None, monitor)
            return False
        if scale is None:
            fin = np.abs(ref[np.isfinite(ref)]) if ref.size else np.array([])
            scale = float(fin.max()) if fin.size else 1.0
            scale = max(scale, 1e-300)
        with np.errstate(all="ignore"):
            err = np.abs(obs - ref)
            same_inf = np.isinf(ref) & (obs == ref)
            err = np.where(same_inf, 0.0, err)
            tol = atol + rtol * scale
            bad = ~(err <= tol)
        m["comparisons"] += int(n if n is not None else obs.size)
        fe = err[np.isfinite(err)]
        if fe.size:
            rel = float(fe.max() / (atol + scale)) if (atol + scale) > 0 else float(fe.max())
            m["max_err"] = max(m["max_err"], rel)
        if bad.any():
            idx = np.argwhere(bad)[:5]
            detail = {"where": idx.tolist(), "observed": [obs[tuple(i)] for i in idx],
                      "expected": [ref[tuple(i)] for i in idx], "tol": tol}
            d = data() if callable(data) else data
            dd = {"mismatch": detail}
            if d:
                dd.update(d)
            self.violation(key, f"{what}: {int(bad.sum())}/{obs.size} entries differ, first {detail}", dd, monitor)
            return False
        return True

    def call(self, key, fn, *a, data=None, **kw):
        """Run repository code on an in-domain input; an exception is a violation ("nothing returned")."""
        try:
            return True, fn(*a, **kw)
        except Inconclusive:
            raise
        except Exception as e:  # noqa: BLE001 - the witness matters, whatever it is
            tb = traceback.format_exc(limit=8)
            where = _repo_frame(e)
            self.violation(f"{key}/raises:{type(e).__name__}@{where}",
                           f"{type(e).__name__}: {e}", {"traceback": tb, **(data() if callable(data) else (data or {}))},
                           monitor="exceptions")
            return False, None

    def note(self, s):
        if s not in self.notes:
            self.notes.append(s)

    def out_of_time(self):
        return self.deadline is not None and time.time() > self.deadline

    # ---- shard result
    def result(self):
        return {
            "pid": self.pid, "tier": self.tier, "seed": self.seed, "shard": self.shard,
            "evaluations": self.evaluations, "digests": sorted(self.digests), "classes": self.classes,
            "monitors": self.monitors, "violations": self.violations, "viol_counts": self._viol_keys,
            "samples": self.samples, "notes": self.notes, "insitu": self.insitu, "extra": jsonable(self.extra),
            "wall_s": time.time() - self.t0,
        }


def _repo_frame(exc):
    tb = exc.__traceback__
    last = "?"
    while tb is not None:
        fn = tb.tb_frame.f_code.co_filename
        if os.sep + "PyMatterSim" + os.sep in fn:
            last = f"{os.path.basename(fn)}:{tb.tb_frame.f_code.co_name}"
        tb = tb.tb_next
    return last


# --------------------------------------------------------------------------- merge + verdict
def merge(results):
    out = {"evaluations": 0, "digests": set(), "classes": {}, "monitors": {}, "violations": [],
           "viol_counts": {}, "samples": [], "notes": [], "insitu": {}, "extra": {}, "shards": len(results)}
    for r in results:
        out["evaluations"] += r["evaluations"]
        out["digests"].update(r["digests"])
        for k, v in r["classes"].items():
            out["classes"][k] = out["classes"].get(k, 0) + v
        for k, v in r["monitors"].items():
            m = out["monitors"].setdefault(k, {"comparisons": 0, "skipped_ties": 0, "max_err": 0.0, "violations": 0})
            m["comparisons"] += v["comparisons"]
            m["skipped_ties"] += v["skipped_ties"]
            m["violations"] += v["violations"]
            m["max_err"] = max(m["max_err"], v["max_err"])
        out["violations"].extend(r["violations"])
        for k, v in r["viol_counts"].items():
            out["viol_counts"][k] = out["viol_counts"].get(k, 0) + v
        for s in r["samples"]:
            if len(out["samples"]) < 4:
                out["samples"].append(s)
        for s in r["notes"]:
            if s not in out["notes"]:
                out["notes"].append(s)
        for k, v in r["insitu"].items():
            d = out["insitu"].setdefault(k, {})
            for kk, vv in v.items():
                d[kk] = d.get(kk, 0) + vv
        for k, v in (r.get("extra") or {}).items():
            if k == "reach_detail":
                d = out["extra"].setdefault(k, {})
                for a, hv in v.items():
                    e = d.setdefault(a, {"hit": set(), "body": set()})
                    e["hit"].update(hv["hit"])
                    e["body"].update(hv["body"])
                continue
            if isinstance(v, (int, float)) and not isinstance(v, bool):
                if k.startswith("max_"):
                    out["extra"][k] = max(out["extra"].get(k, v), v)
                else:
                    out["extra"][k] = out["extra"].get(k, 0) + v
            elif isinstance(v, dict):
                d = out["extra"].setdefault(k, {})
                for kk, vv in v.items():
                    if isinstance(vv, (int, float)) and not isinstance(vv, bool):
                        d[kk] = d.get(kk, 0) + vv
                    else:
                        d[kk] = vv
            else:
                out["extra"].setdefault(k, v)
    return out


def load_known():
    p = os.path.join(VERIF_DIR, "known_findings.json")
    try:
        with open(p) as f:
            return json.load(f).get("findings", [])
    except FileNotFoundError:
        return []


def match_known(v, known):
    for k in known:
        if k.get("status") == "known" and k.get("property") == v["property"] and fnmatch.fnmatch(v["key"], k["key"]):
            return k
    return None


def finish(pid, tier, seed, merged, spec, wall_s, inconclusive_reasons):
    """Write evidence, replays; print verdict lines; return exit code."""
    known = load_known()
    real, kn = [], []
    for v in merged["violations"]:
        k = match_known(v, known)
        (kn if k else real).append((v, k))

    # floors -> inconclusive
    reasons = list(inconclusive_reasons)
    floors = spec.get("floors", {})
    for mon, floor in floors.items():
        f = floor if tier == "quick" else spec.get("floors_thorough", {}).get(mon, floor)
        got = merged["monitors"].get(mon, {}).get("comparisons", 0)
        if got < f:
            reasons.append(f"monitor '{mon}' made {got} comparisons (< floor {f})")
    if tier != "quick":
        for mon, f in spec.get("floors_thorough", {}).items():
            if mon not in floors:
                got = merged["monitors"].get(mon, {}).get("comparisons", 0)
                if got < f:
                    reasons.append(f"monitor '{mon}' made {got} comparisons (< floor {f})")
    for fn, hit in (merged["extra"].get("reach_functions") or {}).items():
        if not hit and fn in spec.get("must_reach", []):
            reasons.append(f"anchored function {fn} never executed")

    evdir = os.environ.get("VERIF_EVIDENCE_DIR") or os.path.join(VERIF_DIR, "evidence")
    rpdir = os.environ.get("VERIF_REPLAY_DIR") or os.path.join(VERIF_DIR, "replays")
    os.makedirs(evdir, exist_ok=True)
    os.makedirs(rpdir, exist_ok=True)
    replay_paths = []
    for i, (v, _k) in enumerate(real):
        p = os.path.join(rpdir, f"{pid}_{tier}_s{seed}_{i}.json")
        with open(p, "w") as f:
            json.dump(v, f, indent=1)
        replay_paths.append(p)

    # reach: union over the shards of the lines each shard executed (offsets relative to the def line, robust against edits above)
    rd = merged["extra"].pop("reach_detail", None)
    if rd:
        merged["extra"]["reach"] = {a: f"{len(v['hit'])}/{len(v['body'])}" for a, v in rd.items()}
        merged["extra"]["reach_missed_line_offsets"] = {a: sorted(v["body"] - v["hit"]) for a, v in rd.items() if v["body"] - v["hit"]}
    nd = len(merged["digests"])
    ev = {
        "property_id": pid, "tier": tier, "seed": int(seed), "level": "exploration",
        "coverage": {
            "evaluations": int(merged["evaluations"]),
            "distinct_nontrivial": int(nd),
            "rule": spec.get("rule", ""),
            "samples": merged["samples"] or [{"note": "no sample recorded"}],
            "classes": merged["classes"],
            "monitors": merged["monitors"],
            "insitu_contract_evaluations": merged["insitu"],
            "reach": merged["extra"].get("reach", {}),
            "fp_events": merged["extra"].get("fp_events", {}),
            "shards": merged["shards"],
            "known_findings": [{"key": v["key"], "what": v["what"][:200]} for v, _ in kn],
            "reach_missed_line_offsets": merged["extra"].get("reach_missed_line_offsets", {}),
            "other": {k: v for k, v in merged["extra"].items() if k not in ("reach", "reach_functions", "fp_events", "reach_missed_line_offsets")},
            "notes": merged["notes"],
            "inconclusive_reasons": reasons,
            "repo": REPO,
        },
        "assumptions": spec.get("assumptions", []),
        "wall_s": round(float(wall_s), 2),
        "violations": len(real),
    }
    err = _validate(ev)
    if err:
        reasons.append(f"evidence does not validate: {err[:300]}")
        ev["coverage"]["inconclusive_reasons"] = reasons
    with open(os.path.join(evdir, f"{pid}.json"), "w") as f:
        json.dump(ev, f, indent=1)

    mons = ", ".join(f"{k}={v['comparisons']}" for k, v in sorted(merged["monitors"].items()))
    print(f"[{pid}] tier={tier} seed={seed} cases={merged['evaluations']} distinct_nontrivial={nd} "
          f"wall={wall_s:.1f}s comparisons: {mons}")
    seen = set()
    for v, k in kn:
        if v["key"] not in seen:
            seen.add(v["key"])
            print(f"KNOWN-FINDING: property={pid} {v['key']}: {v['what'][:160]}")
    if real:
        for (v, _), p in zip(real, replay_paths):
            print(f"  violation key={v['key']}: {v['what'][:300]}")
            print(f"VIOLATION property={pid} replay={p}")
        return 1
    if reasons:
        for r in reasons:
            print(f"INCONCLUSIVE property={pid} reason={r}")
        return 2
    return 0


def _validate(ev):
    try:
        import jsonschema  # type: ignore
    except ImportError:
        return None
    try:
        with open(os.path.join(VERIF_DIR, "schemas", "EVIDENCE.schema.json")) as f:
            schema = json.load(f)
        jsonschema.validate(ev, schema)
    except FileNotFoundError:
        return None
    except jsonschema.ValidationError as e:
        return e.message
    return None
