"""In-situ contracts on the repository's shared low-level functions.

Repository modules bind helpers with ``from ..utils.pbc import remove_pbc``; every importing
module therefore holds its own reference.  ``install`` walks ``sys.modules['PyMatterSim.*']``
and replaces every attribute that *is* the target by a per-call-site wrapper, so the contract
is evaluated with the arguments real callers pass, and evaluations are counted per call site.

Contracts only *record* (ctx.violation) — they never raise into the code they observe.
Stateless post-conditions are expressed with ``deal`` when it is importable (setup.sh installs
it offline); otherwise the same named condition functions are applied by a plain wrapper.
"""
from __future__ import annotations

import functools
import sys

import numpy as np

try:  # pragma: no cover - availability recorded in evidence
    import deal  # type: ignore
    HAVE_DEAL = True
except Exception:  # noqa: BLE001
    deal = None
    HAVE_DEAL = False


class ContractBroken(Exception):
    pass


_installed = []


def _bindings(target):
    out = []
    for name, mod in list(sys.modules.items()):
        if not name.startswith("PyMatterSim") or mod is None:
            continue
        for attr, val in list(vars(mod).items()):
            if val is target:
                out.append((mod, attr))
    return out


def install(ctx, target, contract_name, post, sample_every=1, full_first=3000):
    """post(args, kwargs, result) -> None | (key, message, data)"""
    sites = _bindings(target)
    counts = ctx.insitu.setdefault(contract_name, {})
    for mod, attr in sites:
        site = mod.__name__.replace("PyMatterSim.", "")
        counts.setdefault(site, 0)

        def make(site=site):
            state = {"n": 0}

            def condition(result, args, kwargs):
                state["n"] += 1
                if state["n"] > full_first and state["n"] % sample_every:
                    return True
                counts[site] += 1
                try:
                    bad = post(args, kwargs, result)
                except Exception as e:  # noqa: BLE001  contract bug must not kill the observed run
                    ctx.note(f"contract {contract_name} raised {type(e).__name__}: {e}")
                    return True
                if bad:
                    key, msg, data = bad
                    ctx.violation(f"insitu/{contract_name}/{key}", f"[{site}] {msg}", data, monitor="insitu:" + contract_name)
                    return True
                ctx.mon("insitu:" + contract_name)["comparisons"] += 1
                return True

            if HAVE_DEAL:
                def validator(*args, result, **kwargs):
                    return condition(result, args, kwargs)

                return deal.ensure(validator, exception=ContractBroken)(target)

            @functools.wraps(target)
            def wrapper(*args, **kwargs):
                result = target(*args, **kwargs)
                condition(result, args, kwargs)
                return result

            return wrapper

        w = make()
        setattr(mod, attr, w)
        _installed.append((mod, attr, target))
    return len(sites)


def uninstall():
    while _installed:
        mod, attr, target = _installed.pop()
        setattr(mod, attr, target)


# ------------------------------------------------------------------ contracts
def pbc_post(args, kwargs, result):
    """C02 clauses 1-2 on every real call: lattice translations only, into the half cell."""
    RIJ = kwargs.get("RIJ", args[0] if args else None)
    hm = kwargs.get("hmatrix", args[1] if len(args) > 1 else None)
    ppp = kwargs.get("ppp", args[2] if len(args) > 2 else np.array([1, 1, 1]))
    R = np.atleast_2d(np.asarray(RIJ, dtype=float))
    H = np.asarray(hm, dtype=float)
    p = np.asarray(ppp)
    out = np.atleast_2d(np.asarray(result, dtype=float))
    if R.size == 0:
        return None
    if out.shape != R.shape:
        return ("shape", f"output shape {out.shape} != input {R.shape}", None)
    d = H.shape[0]
    if p.shape[0] != d:
        return None  # caller passed a mask of another length (numpy broadcasting decides); not this contract
    Hinv = np.linalg.inv(H)
    cond = np.linalg.cond(H)
    f_in = R @ Hinv
    f_out = out @ Hinv
    n = f_in - f_out
    tol = 256 * np.finfo(float).eps * cond * np.maximum(1.0, np.abs(f_in).max())
    nint = np.rint(n)
    if not np.all(np.abs(n - nint) <= tol):
        i = int(np.argmax(np.abs(n - nint).max(axis=1)))
        return ("lattice", f"output-input is not a lattice vector: n={n[i]}", {"R": R[i], "out": out[i], "H": H, "ppp": p})
    if np.any(nint[:, p == 0] != 0):
        return ("nonperiodic", "component along a non-periodic axis changed", {"H": H, "ppp": p})
    per = f_out[:, p != 0]
    if per.size and np.abs(per).max() > 0.5 + tol:
        i = int(np.argmax(np.abs(f_out * (p != 0)).max(axis=1)))
        return ("halfcell", f"fractional coordinate outside [-1/2,1/2]: {f_out[i]}", {"R": R[i], "out": out[i], "H": H, "ppp": p})
    return None


def read_neighbors_post(args, kwargs, result):
    """C05 reader contract (shape / range / padding / dtype) at every real call site."""
    nparticle = kwargs.get("nparticle", args[1] if len(args) > 1 else None)
    Nmax = kwargs.get("Nmax", args[2] if len(args) > 2 else 200)
    a = np.asarray(result)
    if a.ndim != 2 or a.shape[0] != nparticle:
        return ("shape", f"rows {a.shape} for nparticle={nparticle}", None)
    if a.shape[1] > Nmax + 1 or a.shape[1] < 1:
        return ("width", f"width {a.shape[1]} for Nmax={Nmax}", None)
    cn = a[:, 0]
    if np.any(cn < 0) or np.any(cn > Nmax) or np.any(cn != np.floor(cn)):
        return ("cn", "coordination column outside [0, Nmax] or non-integer", None)
    cn = cn.astype(int)
    if cn.max(initial=0) > a.shape[1] - 1:
        return ("cn_width", "coordination number exceeds row width", None)
    cols = np.arange(1, a.shape[1])[None, :]
    pad = cols > cn[:, None]
    if np.any(a[:, 1:][pad] != 0):
        return ("padding", "non-zero padding behind the listed neighbours", None)
    if np.issubdtype(a.dtype, np.integer):
        live = a[:, 1:][~pad]
        if live.size and (live.min() < 0 or live.max() >= nparticle):
            return ("range", f"neighbour index outside [0,{nparticle})", None)
    return None


def pr_post(args, kwargs, result):
    v = np.asarray(kwargs.get("vector", args[0] if args else None))
    n = v.shape[0]
    r = float(result)
    if not np.isfinite(r):
        if not np.all(np.isfinite(v)) or not np.any(v):
            return None
        return ("finite", f"participation ratio {r}", None)
    if r < 1.0 / n * (1 - 1e-9) or r > 1 + 1e-9:
        return ("bounds", f"participation ratio {r} outside [1/{n},1]", None)
    return None


def sph_post(args, kwargs, result):
    from scipy.special import sph_harm_y
    l = kwargs.get("l", args[0] if args else None)
    theta = kwargs.get("theta", args[1] if len(args) > 1 else None)
    phi = kwargs.get("phi", args[2] if len(args) > 2 else None)
    if result is None:
        return ("none", f"sph_harm_l returned None for l={l}", None)
    r = np.asarray(result)
    if not (np.isfinite(theta) and np.isfinite(phi)):
        return None
    ref = np.array([sph_harm_y(l, m, theta, phi) for m in range(-l, l + 1)])
    if r.shape != ref.shape:
        return ("shape", f"shape {r.shape} for l={l}", None)
    if np.abs(r - ref).max() > 1e-10:
        return ("value", f"l={l} theta={theta} phi={phi}: max dev {np.abs(r - ref).max():.3g}",
                {"l": l, "theta": theta, "phi": phi})
    return None


def install_standard(ctx, which=("pbc", "read_neighbors", "pr", "sph")):
    """Attach the standard in-situ contracts; returns {contract: n_sites}."""
    import importlib
    out = {}
    ctx.extra["deal_available"] = HAVE_DEAL
    if "pbc" in which:
        m = importlib.import_module("PyMatterSim.utils.pbc")
        out["remove_pbc"] = install(ctx, m.remove_pbc, "remove_pbc", pbc_post, sample_every=7, full_first=1500)
    if "read_neighbors" in which:
        m = importlib.import_module("PyMatterSim.neighbors.read_neighbors")
        out["read_neighbors"] = install(ctx, m.read_neighbors, "read_neighbors", read_neighbors_post)
    if "pr" in which:
        try:
            m = importlib.import_module("PyMatterSim.static.vector")
            out["participation_ratio"] = install(ctx, m.participation_ratio, "participation_ratio", pr_post)
        except Exception:  # noqa: BLE001
            pass
    if "sph" in which:
        try:
            m = importlib.import_module("PyMatterSim.utils.spherical_harmonics")
            out["sph_harm_l"] = install(ctx, m.sph_harm_l, "sph_harm_l", sph_post, sample_every=23, full_first=400)
        except Exception:  # noqa: BLE001
            pass
    return out
