"""Independent geometry: shortest periodic images by brute force over images.

Never imports PyMatterSim.  Vectorised over the full N x N pair matrix.
"""
from __future__ import annotations

import itertools

import numpy as np


def image_shifts(H, ppp, nimg=1):
    d = H.shape[0]
    rngs = [range(-nimg, nimg + 1) if ppp[k] else (0,) for k in range(d)]
    n = np.array(list(itertools.product(*rngs)), dtype=float)
    return n @ H


def min_image_vectors(dR, H, ppp, nimg=1):
    """shortest image of each displacement (rows of dR) over the images {-nimg..nimg}^d of periodic axes.
    returns (vectors, distances, second_shortest_distance)"""
    dR = np.atleast_2d(np.asarray(dR, float))
    H = np.asarray(H, float)
    # displacements between unwrapped coordinates may span many cells: bring each into the neighbourhood of the origin first (whole cell
    # vectors along periodic axes), then search the surrounding images by brute force
    f = np.linalg.solve(H.T, dR.T).T
    dR = dR - (np.floor(f + 0.5) * np.asarray(ppp, float)[None, :]) @ H
    S = image_shifts(H, np.asarray(ppp), nimg)          # (M,d)
    cand = dR[:, None, :] + S[None, :, :]                                    # (n,M,d)
    dist = np.linalg.norm(cand, axis=2)
    k = np.argmin(dist, axis=1)
    vec = cand[np.arange(len(dR)), k]
    dmin = dist[np.arange(len(dR)), k]
    if S.shape[0] > 1:
        d2 = np.partition(dist, 1, axis=1)[:, 1]
    else:
        d2 = np.full(len(dR), np.inf)
    return vec, dmin, d2


def pair_table(pos, H, ppp, nimg=1):
    """full ordered-pair tables: vec[i,j] = shortest image of r_j - r_i, dist[i,j], second[i,j]."""
    N, d = pos.shape
    dR = (pos[None, :, :] - pos[:, None, :]).reshape(N * N, d)
    vec, dist, d2 = min_image_vectors(dR, H, ppp, nimg)
    return vec.reshape(N, N, d), dist.reshape(N, N), d2.reshape(N, N)


def convention_vectors(dR, H, ppp):
    """the *documented convention* (C02): fractional coordinates reduced to [-1/2,1/2] on periodic axes.
    Written independently (solve instead of inverse, floor(x+1/2) reduction with tie reporting)."""
    dR = np.atleast_2d(np.asarray(dR, float))
    H = np.asarray(H, float)
    f = np.linalg.solve(H.T, dR.T).T
    p = np.asarray(ppp).astype(bool)
    n = np.floor(f + 0.5)
    tie = np.abs((f + 0.5) - np.rint(f + 0.5)) < 1e-9
    f2 = np.where(p[None, :], f - n, f)
    return f2 @ H, (tie & p[None, :]).any(axis=1)


def agreement_radius(H, ppp):
    """below this distance the convention vector is the unique shortest image (R2): w_min/2 over periodic axes."""
    Hinv = np.linalg.inv(np.asarray(H, float))
    w = 1.0 / np.linalg.norm(Hinv, axis=0)
    p = np.asarray(ppp).astype(bool)
    if not p.any():
        return np.inf
    return 0.5 * w[p].min()


def is_orthogonal(H):
    H = np.asarray(H, float)   # exactly diagonal: no absolute tolerance, cells come in any unit of length
    return bool(np.array_equal(H, np.diag(np.diag(H))))
