"""Independent periodic Voronoi tessellation (scipy / Qhull on explicit periodic images).

Never imports PyMatterSim or freud.  For an orthogonal periodic box the points are replicated over
(2*nimg+1)^d images, Qhull's Voronoi diagram of the replicated set is computed once and the cells of the
central copies are read off:

  neighbours[i]  list of (j, weight) with j the *original* id of the particle across the face and weight
                 the edge length (2D) / polygon area (3D) -- one entry per face, so a pair sharing several
                 faces through different images appears several times (multiset semantics)
  volumes[i]     cell area / volume
  centroid of each face (for the analytic volume derivative)
"""
from __future__ import annotations

import itertools

import numpy as np
from scipy.spatial import ConvexHull, Voronoi


def _poly_area_centroid_3d(verts, normal):
    """area and centroid of a planar convex polygon given (unordered) vertices and the plane normal."""
    c0 = verts.mean(axis=0)
    n = normal / np.linalg.norm(normal)
    a = np.cross(n, [1.0, 0.0, 0.0])
    if np.linalg.norm(a) < 0.3:
        a = np.cross(n, [0.0, 1.0, 0.0])
    a /= np.linalg.norm(a)
    b = np.cross(n, a)
    rel = verts - c0
    x, y = rel @ a, rel @ b
    order = np.argsort(np.arctan2(y, x))
    x, y = x[order], y[order]
    x2, y2 = np.roll(x, -1), np.roll(y, -1)
    cr = x * y2 - x2 * y
    A = 0.5 * cr.sum()
    if abs(A) < 1e-300:
        return 0.0, c0
    cx = ((x + x2) * cr).sum() / (6 * A)
    cy = ((y + y2) * cr).sum() / (6 * A)
    return abs(A), c0 + cx * a + cy * b


def periodic_voronoi(pos, L, nimg=None):
    """pos (N,d) anywhere (wrapped internally into [0,L)); L (d,) box lengths.
    returns dict(neighbors=[[(j, w, centroid, image_vector)...]...], volumes=(N,), ok=bool)"""
    pos = np.asarray(pos, float)
    L = np.asarray(L, float)
    N, d = pos.shape
    p = pos - np.floor(pos / L) * L
    if nimg is None:
        nimg = 2 if N < 40 else 1
    shifts = np.array(list(itertools.product(range(-nimg, nimg + 1), repeat=d)), dtype=float) * L
    zero = int(np.nonzero((shifts == 0).all(axis=1))[0][0])
    allp = (p[None, :, :] + shifts[:, None, :]).reshape(-1, d)
    vor = Voronoi(allp)
    central = np.arange(zero * N, zero * N + N)
    is_central = np.zeros(len(allp), bool)
    is_central[central] = True
    neighbors = [[] for _ in range(N)]
    ok = True
    for (a, b), rv in zip(vor.ridge_points, vor.ridge_vertices):
        if not (is_central[a] or is_central[b]):
            continue
        if -1 in rv:
            ok = False
            continue
        verts = vor.vertices[rv]
        if d == 2:
            w = float(np.linalg.norm(verts[0] - verts[1]))
            cen = verts.mean(axis=0)
        else:
            w, cen = _poly_area_centroid_3d(verts, allp[b] - allp[a])
        for s, t in ((a, b), (b, a)):
            if is_central[s]:
                i = s - zero * N
                neighbors[i].append((int(t % N), w, cen, allp[t] - allp[s]))
    volumes = np.zeros(N)
    for i in range(N):
        reg = vor.regions[vor.point_region[central[i]]]
        if -1 in reg or len(reg) == 0:
            ok = False
            continue
        volumes[i] = ConvexHull(vor.vertices[reg]).volume
    return {"neighbors": neighbors, "volumes": volumes, "ok": ok, "wrapped": p}


def volume_gradient(pos, L, nimg=None):
    """analytic d V_i / d r_j for j != i summed over all shared faces:
    dV_i/dr_j = sum_faces (A_f / |r_ij|) * (r_j_image - c_f)   (Voronoi cell volume derivative),
    returns G[i, j, :] (N,N,d) with G[i,i] = -sum_{j != i} G[i,j] (translation invariance) and the volumes."""
    t = periodic_voronoi(pos, L, nimg)
    N, d = np.asarray(pos).shape
    G = np.zeros((N, N, d))
    p = t["wrapped"]
    for i in range(N):
        for (j, w, cen, rij) in t["neighbors"][i]:
            if j == i:
                continue   # own image: moves rigidly with i, handled by the self term
            rj = p[i] + rij
            G[i, j] += w / np.linalg.norm(rij) * (rj - cen)
    for i in range(N):
        G[i, i] = -G[i].sum(axis=0)
    return G, t
