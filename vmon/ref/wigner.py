"""Wigner 3-j symbols (l l l; m1 m2 m3) by the Racah formula in exact rational arithmetic."""
from __future__ import annotations

import math
from fractions import Fraction
from functools import lru_cache

import numpy as np

f = math.factorial


@lru_cache(maxsize=None)
def w3j_lll(l, m1, m2, m3):
    if m1 + m2 + m3 != 0:
        return 0.0
    j1 = j2 = j3 = l
    # triangle coefficient
    delta = Fraction(f(j1 + j2 - j3) * f(j1 - j2 + j3) * f(-j1 + j2 + j3), f(j1 + j2 + j3 + 1))
    pref = delta * f(j1 + m1) * f(j1 - m1) * f(j2 + m2) * f(j2 - m2) * f(j3 + m3) * f(j3 - m3)
    kmin = max(0, j2 - j3 - m1, j1 - j3 + m2)
    kmax = min(j1 + j2 - j3, j1 - m1, j2 + m2)
    s = Fraction(0)
    for k in range(kmin, kmax + 1):
        den = f(k) * f(j1 + j2 - j3 - k) * f(j1 - m1 - k) * f(j2 + m2 - k) * f(j3 - j2 + m1 + k) * f(j3 - j1 - m2 + k)
        s += Fraction((-1) ** k, den)
    sign = (-1) ** (j1 - j2 - m3)
    return sign * float(s) * math.sqrt(pref)


def table(l):
    out = []
    for m1 in range(-l, l + 1):
        for m2 in range(-l, l + 1):
            m3 = -m1 - m2
            if -l <= m3 <= l:
                out.append((m1, m2, m3, w3j_lll(l, m1, m2, m3)))
    return out


def w_l(qlm, l):
    """qlm: (..., 2l+1) complex; returns real w_l = sum (3j) q_m1 q_m2 q_m3"""
    tot = np.zeros(qlm.shape[:-1])
    for m1, m2, m3, c in table(l):
        if c != 0.0:
            tot += c * np.real(qlm[..., l + m1] * qlm[..., l + m2] * qlm[..., l + m3])
    return tot
