"""Reference pair-correlation function: normalised ordered-pair histogram, tie-aware (R1), region-aware (R2)."""
from __future__ import annotations

import numpy as np

from . import geom


def shell(d, w, nb):
    lo = np.arange(nb) * w
    hi = lo + w
    if d == 3:
        return 4.0 / 3.0 * np.pi * (hi ** 3 - lo ** 3)
    return np.pi * (hi ** 2 - lo ** 2)


def bin_pairs(dist, w, nb, tie_eps=1e-9):
    """dist: 1-D distances. returns (index of sure bin or -1, [tie candidates lo bin])"""
    x = dist / w
    k = np.floor(x).astype(int)
    near = (np.abs(x - np.rint(x)) < tie_eps) & (dist != 0)      # a separation of exactly zero (two sites on one position) is IN the first bin [0, w): no tie
    edge = np.rint(x).astype(int)
    return k, near, edge


def histogram_interval(dist, w, nb, weights=None):
    """tie-aware histogram: returns (lo, hi) per bin such that any correct binning lies in [lo,hi].
    Range is [0, nb*w] with the last edge inclusive."""
    if weights is None:
        weights = np.ones_like(dist)
    k, near, edge = bin_pairs(dist, w, nb)
    sure = ~near
    lo = np.zeros(nb)
    hi = np.zeros(nb)
    ks = k[sure]
    ws = weights[sure]
    inside = (ks >= 0) & (ks < nb)
    base = np.bincount(ks[inside], weights=ws[inside], minlength=nb)[:nb]
    lo += base
    hi += base
    # ties: may fall in bin edge-1 or edge (or outside)
    for e, wt in zip(edge[near], weights[near]):
        for b in (e - 1, e):
            if 0 <= b < nb:
                if wt >= 0:
                    hi[b] += wt
                else:
                    lo[b] += wt
    relaxed = np.zeros(nb, dtype=bool)
    for e in edge[near]:
        for b in (e - 1, e):
            if 0 <= b < nb:
                relaxed[b] = True
    return lo, hi, relaxed


def reference(frames_pos, types, H, ppp, w, lengths):
    """frames_pos: list of (N,d) arrays. returns dict(columns -> (lo,hi)), r, compare_mask, relaxed_mask"""
    if isinstance(types, list):
        types_f = [np.asarray(t) for t in types]
    else:
        types_f = [np.asarray(types)] * len(frames_pos)
    types = types_f[0]
    N, d = frames_pos[0].shape
    nb = int(np.min(lengths) / 2.0 / w)
    Hs = list(H) if isinstance(H, (list, tuple)) else [H] * len(frames_pos)      # one cell matrix per frame (sheared trajectories)
    H = Hs[0]
    V = abs(np.linalg.det(H))
    species = np.unique(types)
    K = len(species)
    r = (np.arange(nb) + 0.5) * w
    vs = shell(d, w, nb)
    cols = {"gr": [np.zeros(nb), np.zeros(nb)]}
    pairs = []
    if 2 <= K <= 5:   # a unary system returns only the total (the total *is* g_11)
        for a in range(1, K + 1):
            pairs.append((a, a))
        for a in range(1, K + 1):
            for b in range(a + 1, K + 1):
                pairs.append((a, b))
        for a, b in pairs:
            cols[f"gr{a}{b}"] = [np.zeros(nb), np.zeros(nb)]
    relaxed = np.zeros(nb, dtype=bool)
    off = ~np.eye(N, dtype=bool)
    for pos, tf, Hf in zip(frames_pos, types_f, Hs):
        ti = np.broadcast_to(tf[:, None], (N, N))
        tj = np.broadcast_to(tf[None, :], (N, N))
        _vec, dist, _d2 = geom.pair_table(pos, Hf, ppp)
        lo, hi, rel = histogram_interval(dist[off], w, nb)
        cols["gr"][0] += lo
        cols["gr"][1] += hi
        relaxed |= rel
        for a, b in pairs:
            sel = off & (ti == a) & (tj == b)
            lo, hi, _ = histogram_interval(dist[sel], w, nb)
            cols[f"gr{a}{b}"][0] += lo
            cols[f"gr{a}{b}"][1] += hi
    nf = len(frames_pos)
    cnt = {s: int((types == s).sum()) for s in species}
    out = {}
    out["gr"] = tuple(V / (N * N) * c / nf / vs for c in cols["gr"])
    for a, b in pairs:
        out[f"gr{a}{b}"] = tuple(V / (cnt[a] * cnt[b]) * c / nf / vs for c in cols[f"gr{a}{b}"])
    if all(geom.is_orthogonal(Hf) for Hf in Hs):
        compare = np.ones(nb, dtype=bool)
    else:
        ra = min(geom.agreement_radius(Hf, ppp) for Hf in Hs)
        compare = (np.arange(nb) + 1) * w <= ra
    return out, r, compare, relaxed, nb
