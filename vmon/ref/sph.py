"""Own orthonormal Condon-Shortley spherical harmonics by Legendre recurrence.

Written with explicit s = sin(theta), c = cos(theta) (never sqrt(1-c^2)), so the expression is the
analytic trigonometric polynomial of degree <= l in theta on the whole circle.
theta = polar angle, phi = azimuth.  Returns array [..., 2l+1] ordered m = -l..l.
"""
from __future__ import annotations

import math

import numpy as np


def legendre_all(l, theta):
    """dict m -> P_l^m(cos theta) (with Condon-Shortley phase) for m = 0..l"""
    theta = np.asarray(theta, dtype=float)
    s, c = np.sin(theta), np.cos(theta)
    out = {}
    for m in range(0, l + 1):
        pmm = np.ones_like(theta)
        dfact = 1.0
        for k in range(1, m + 1):
            dfact *= (2 * k - 1)
        pmm = ((-1) ** m) * dfact * s ** m
        if l == m:
            out[m] = pmm
            continue
        pm1 = c * (2 * m + 1) * pmm
        if l == m + 1:
            out[m] = pm1
            continue
        a, b = pmm, pm1
        for ll in range(m + 2, l + 1):
            a, b = b, (c * (2 * ll - 1) * b - (ll + m - 1) * a) / (ll - m)
        out[m] = b
    return out


def ylm_all(l, theta, phi):
    theta = np.asarray(theta, dtype=float)
    phi = np.asarray(phi, dtype=float)
    P = legendre_all(l, theta)
    shape = np.broadcast(theta, phi).shape
    out = np.zeros(shape + (2 * l + 1,), dtype=complex)
    for m in range(0, l + 1):
        norm = math.sqrt((2 * l + 1) / (4 * math.pi) * math.factorial(l - m) / math.factorial(l + m))
        y = norm * P[m] * np.exp(1j * m * phi)
        out[..., l + m] = y
        if m > 0:
            out[..., l - m] = ((-1) ** m) * np.conj(y)
    return out
