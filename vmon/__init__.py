"""vmon — runtime monitors for pymattersim (see /verif/DESIGN.md).

Importing this package prepares the process *before* numpy is imported:
single-threaded BLAS (bit-reproducible repeated calls), the repository under
test first on sys.path, the offline-installed contract libraries after it.
"""
import os
import sys

for _v in ("OMP_NUM_THREADS", "MKL_NUM_THREADS", "OPENBLAS_NUM_THREADS", "NUMEXPR_NUM_THREADS"):
    os.environ.setdefault(_v, "1")
os.environ.setdefault("PYTHONDONTWRITEBYTECODE", "1")
sys.dont_write_bytecode = True

VERIF_DIR = os.path.dirname(os.path.dirname(os.path.abspath(__file__)))
REPO = os.path.abspath(os.environ.get("VERIF_REPO") or "/repo")
DEPS = os.path.join(VERIF_DIR, ".deps")

if REPO not in sys.path[:1]:
    sys.path.insert(0, REPO)
if os.path.isdir(DEPS) and DEPS not in sys.path:
    sys.path.append(DEPS)
