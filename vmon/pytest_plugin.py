"""pytest plug-in (`-p vmon.pytest_plugin`): the repository's OWN tests run with the purity monitor and the in-situ contracts on.

Every public analysis entry point (functions, and __init__ + public methods of the analysis classes) is wrapped: a bit-exact copy
of every array reachable from the call's arguments (and, for methods, from the arguments the object was constructed with) is taken
before the call and compared after it.  The standard in-situ contracts (minimum image, neighbour-file reader, participation ratio,
spherical harmonics) are installed as well.  Results are written as JSON to $VMON_PLUGIN_OUT when the session ends.  The tests'
own verdicts are irrelevant here: they are the *workload* (real file sizes: 500 - 10 000 particles), the monitors are the oracle.
"""
from __future__ import annotations

import functools
import importlib
import inspect
import json
import os

TARGETS = {
    "PyMatterSim.static.gr": ["conditional_gr", "gr"],
    "PyMatterSim.static.sq": ["conditional_sq", "sq"],
    "PyMatterSim.static.boo": ["boo_3d", "boo_2d"],
    "PyMatterSim.static.geometric": ["packing_capability_2d", "q8_tetrahedral"],
    "PyMatterSim.static.pairentropy": ["s2_integral", "S2"],
    "PyMatterSim.static.hessians": ["HessianMatrix", "PairInteractions"],
    "PyMatterSim.static.shape": ["gyration_tensor"],
    "PyMatterSim.static.vector": ["participation_ratio", "local_vector_alignment", "phase_quotient", "divergence_curl", "vibrability",
                                  "vector_decomposition_sq", "vector_fft_corr"],
    "PyMatterSim.static.nematic": ["NematicOrder"],
    "PyMatterSim.dynamic.dynamics": ["cage_relative", "Dynamics", "LogDynamics"],
    "PyMatterSim.dynamic.time_corr": ["time_correlation"],
    "PyMatterSim.neighbors.calculate_neighbors": ["Nnearests", "cutoffneighbors", "cutoffneighbors_particletype"],
    "PyMatterSim.neighbors.freud_neighbors": ["convert_configuration", "cal_neighbors", "VolumeMatrix"],
    "PyMatterSim.utils.coarse_graining": ["time_average", "spatial_average", "gaussian_blurring"],
    "PyMatterSim.utils.funcs": ["moment_of_inertia", "grid_gaussian"],
    "PyMatterSim.utils.geometry": ["triangle_area", "lines_intersection", "LineWithinSquare"],
}

STATE = {"calls": {}, "arrays_compared": 0, "violations": [], "ctx": None, "import_errors": {}}


def _wrap(fn, name, is_method=False, is_init=False):
    from vmon.props.C18 import changed, freeze

    @functools.wraps(fn)
    def wrapper(*args, **kwargs):
        watched = {"args": args[1:] if (is_method or is_init) else args, "kwargs": kwargs}
        if is_method and args:
            watched["constructed_with"] = getattr(args[0], "_vmon_init_args", None)
        try:
            lv, fr = freeze(watched)
        except Exception:  # noqa: BLE001 monitor trouble must not change the workload
            return fn(*args, **kwargs)
        try:
            return fn(*args, **kwargs)
        finally:
            STATE["calls"][name] = STATE["calls"].get(name, 0) + 1
            STATE["arrays_compared"] += len(lv)
            try:
                ch = changed(lv, fr)
            except Exception:  # noqa: BLE001
                ch = []
            for p, diff in ch[:3]:
                if len(STATE["violations"]) < 200:
                    STATE["violations"].append({"entry_point": name, "array": p, "max_change": diff,
                                                "test": os.environ.get("PYTEST_CURRENT_TEST", "")})
            if is_init and args:
                try:
                    args[0]._vmon_init_args = (args[1:], kwargs)
                except Exception:  # noqa: BLE001
                    pass
    return wrapper


def install():
    import sys
    for modname, names in TARGETS.items():
        try:
            mod = importlib.import_module(modname)
        except Exception as e:  # noqa: BLE001
            STATE["import_errors"][modname] = f"{type(e).__name__}: {e}"
            continue
        for nm in names:
            obj = getattr(mod, nm, None)
            if obj is None:
                continue
            if inspect.isclass(obj):
                for mname, m in list(vars(obj).items()):
                    if inspect.isfunction(m) and (mname == "__init__" or not mname.startswith("_")):
                        setattr(obj, mname, _wrap(m, f"{nm}.{mname}", is_method=mname != "__init__", is_init=mname == "__init__"))
            elif inspect.isfunction(obj):
                w = _wrap(obj, nm)
                for mn, mm in list(sys.modules.items()):
                    if mn.startswith("PyMatterSim") and mm is not None:
                        for attr, val in list(vars(mm).items()):
                            if val is obj:
                                setattr(mm, attr, w)
    # in-situ contracts
    from vmon import core, interpose
    ctx = core.Ctx("C18", "thorough")
    STATE["ctx"] = ctx
    STATE["contracts_installed"] = interpose.install_standard(ctx)


def pytest_configure(config):
    import logging
    logging.disable(logging.CRITICAL)
    install()


def pytest_sessionfinish(session, exitstatus):
    out = os.environ.get("VMON_PLUGIN_OUT")
    if not out:
        return
    ctx = STATE["ctx"]
    rep = session.config.pluginmanager.get_plugin("terminalreporter")
    stats = {k: len(v) for k, v in (rep.stats.items() if rep else []) if k in ("passed", "failed", "error", "skipped")}
    data = {"calls": STATE["calls"], "arrays_compared": STATE["arrays_compared"], "purity_violations": STATE["violations"],
            "import_errors": STATE["import_errors"], "tests": stats,
            "insitu": ctx.insitu if ctx else {}, "contract_violations": ctx.violations if ctx else [],
            "contract_monitors": ctx.monitors if ctx else {}}
    with open(out, "w") as f:
        json.dump(data, f, default=str)
