"""C06 — relaxation functions equal their definitions averaged over all time origins."""
from __future__ import annotations

import itertools
import math
import os

import numpy as np

from ..gen import config as gc

SPEC = {
    "quick_procs": 2, "thorough_procs": 16, "timeout_quick": 400, "timeout_thorough": 2400,
    "anchors": ["PyMatterSim.dynamic.dynamics:Dynamics.relaxation", "PyMatterSim.dynamic.dynamics:Dynamics.sq4",
                "PyMatterSim.dynamic.dynamics:LogDynamics.relaxation", "PyMatterSim.dynamic.dynamics:cage_relative",
                "PyMatterSim.utils.funcs:alpha2factor"],
    "must_reach": ["PyMatterSim.dynamic.dynamics:Dynamics.relaxation", "PyMatterSim.dynamic.dynamics:Dynamics.sq4",
                   "PyMatterSim.dynamic.dynamics:LogDynamics.relaxation", "PyMatterSim.dynamic.dynamics:cage_relative"],
    "floors": {"relaxation": 3000, "chi4": 300, "log_relaxation": 500, "wrapped_vs_unwrapped": 40, "sq4": 150, "trajectories_in_other_units_of_length": 15,
               "cage_relative_cases": 20, "fast_mode_cases": 20, "selection_cases": 20, "object_history": 40},
    "rule": ("trajectories {ballistic, diffusive, arrested, mixed} x T 2..8 x N 3..40 x {2D,3D} x {xu, x, both} x diameter maps "
             "K 1..3 x cutoff factor x {slow,fast} x selection {none, constant-count, varying-count} x neighbour file {none, own "
             "writer, repository Nnearests} x linear / uneven timesteps (log variant); every lag and every origin is recomputed "
             "by the reference; non-trivial = T>=3 and N>=4; distinct = digest of (trajectory, parameters)"),
    "assumptions": ["wrapped-coordinate runs: every displacement is below half a box length (the property's premise)",
                    "chi4 is compared only when the selected count is the same in every frame (its N is otherwise undefined)",
                    "mobility thresholds within 1e-12 relative of |dr|^2 are ties: such cases are regenerated",
                    "sq4: every mobility subset non-empty (its structure factor is otherwise undefined)",
                    "every particle has >= 1 neighbour in cage-relative runs"],
}


def gen_traj(rng, d, N, T, L, kind):
    x0 = rng.random((N, d)) * L
    frames = [x0]
    vel = rng.normal(size=(N, d)) * 0.15
    for t in range(1, T):
        if kind == "ballistic":
            step = vel
        elif kind == "diffusive":
            step = rng.normal(size=(N, d)) * 0.2
        elif kind == "arrested":
            step = rng.normal(size=(N, d)) * 0.01
        else:
            mob = (np.arange(N) % 2 == 0)[:, None]
            step = np.where(mob, rng.normal(size=(N, d)) * 0.35, rng.normal(size=(N, d)) * 0.02)
        frames.append(frames[-1] + step)
    return np.array(frames)            # unwrapped (T,N,d)


ROW_ORDER_COUNTS = {}


def write_nl(path, lists_per_frame):
    """neighbour file in the library's format.  Rows are identified by their id column: in half of the files the rows of a frame come in
    id order, otherwise reversed or shuffled (chosen deterministically from the content; the library's own sample list is unordered)."""
    h = sum(len(l) for lists in lists_per_frame for l in lists) + 7 * len(lists_per_frame)
    mode = h % 4
    with open(path, "w") as f:
        for t, lists in enumerate(lists_per_frame):
            f.write("id     cn     neighborlist\n")
            order = list(range(len(lists)))
            if mode == 2:
                order.reverse()
            elif mode == 3:
                order = [int(v) for v in np.random.default_rng([h, t]).permutation(len(lists))]
            for i in order:
                l = lists[i]
                f.write(" ".join([str(i + 1), str(len(l))] + [str(j + 1) for j in l]) + "\n")
    key = {0: "rows_in_id_order", 1: "rows_in_id_order", 2: "rows_reversed", 3: "rows_shuffled"}[mode]
    ROW_ORDER_COUNTS[key] = ROW_ORDER_COUNTS.get(key, 0) + 1


def random_lists(rng, N):
    out = []
    same = int(rng.integers(1, min(N - 1, 6) + 1)) if rng.random() < 0.3 else None      # every particle with the same coordination number
    for i in range(N):
        k = same or int(rng.integers(1, min(N - 1, 6) + 1))
        others = [j for j in range(N) if j != i]
        out.append([int(v) for v in rng.choice(others, size=k, replace=False)])
    return out


def reference(XU, ts, dt, diam, a, slow, qconst, cond, lists, single_origin, d):
    """XU: displacement source (T,N,d) unwrapped-equivalent. cond: None | (T,N) bool | (N,) bool (single origin)."""
    T, N, _ = XU.shape
    q = qconst / diam
    cut2 = (a * diam) ** 2
    rows = []
    tie = False
    for k in range(1, T):
        origins = [0] if single_origin else range(0, T - k)
        isf, Q, r2, r4 = [], [], [], []
        for t0 in origins:
            D = XU[t0 + k] - XU[t0]
            if lists is not None:
                ll = lists[0] if single_origin else lists[t0]
                D = D - np.array([D[l].mean(axis=0) for l in ll])
            if cond is not None:
                sel = cond if single_origin else cond[t0]
            else:
                sel = np.ones(N, dtype=bool)
            Ds, qs, cs = D[sel], q[sel], cut2[sel]
            dist2 = (Ds ** 2).sum(axis=1)
            if np.any(np.abs(dist2 - cs) <= 1e-12 * cs):
                tie = True
            isf.append(np.cos(Ds * qs[:, None]).mean())
            Q.append(((dist2 < cs) if slow else (dist2 > cs)).mean())
            r2.append(dist2.mean())
            r4.append((dist2 ** 2).mean())
        Q = np.array(Q)
        nsel = int(sel.sum())
        chi4 = 0.0 if single_origin else nsel * ((Q ** 2).mean() - Q.mean() ** 2)
        cdim = {3: 3.0 / 5.0, 2: 1.0 / 2.0}[d]
        a2 = cdim * np.mean(r4) / np.mean(r2) ** 2 - 1
        rows.append([(ts[k] - ts[0]) * dt, np.mean(isf), Q.mean(), chi4, np.mean(r2), a2])
    return np.array(rows), tie


def default_qset(d, numofq):
    nhalf = int(numofq / 2)
    out = []
    for n in itertools.product(range(-nhalf, nhalf), repeat=d):
        s = sum(v * v for v in n)
        if s and math.isqrt(s) ** 2 == s:
            out.append(n)
    return np.array(out)


def one_case(ctx, rng, wd, force_N=None, force_T=None):
    from PyMatterSim.dynamic.dynamics import Dynamics, LogDynamics
    from PyMatterSim.neighbors.calculate_neighbors import Nnearests
    d = int(rng.choice([2, 3]))
    N = int(rng.integers(3, 41))
    T = int(rng.choice([2, 3, 4, 5, 6, 8, 3, 5, 8, 13, 21]))
    if T > 8:
        N = min(N, 16)
    if force_N:
        N, T = force_N, int(rng.choice([3, 5]))          # a trajectory far beyond the usual size (block-wise evaluation boundaries)
        ctx.count("trajectories_over_1000_particles")
    if force_T:
        N, T = int(rng.integers(3, 7)), force_T           # far more frames than usual: more than 128 / 256 time origins per lag
        ctx.count("trajectories_over_128_frames")
    kind = str(rng.choice(["ballistic", "diffusive", "arrested", "mixed"]))
    L = rng.uniform(4.0, 9.0, size=d)
    if rng.random() < 0.3:
        L[:] = L[0]
    if force_N:
        L = L * (force_N / 30.0) ** (1.0 / d)
    XU = gen_traj(rng, d, N, T, L, kind)
    if rng.random() < 0.2:
        # runaway particles: unwrapped displacements of more than a box length (legitimate for unwrapped coordinates; the wrapped-only
        # mode is switched off below when a displacement exceeds half a box)
        drift = np.zeros((N, d))
        drift[rng.integers(0, N, size=max(1, N // 4))] = rng.normal(size=d) * L.max() * 1.3 / max(T - 1, 1)
        XU = XU + np.arange(T)[:, None, None] * drift[None]
        ctx.count("displacements_beyond_half_a_box")
    lo = rng.uniform(-2, 2, size=d) if rng.random() < 0.5 else np.zeros(d)
    XU = XU + lo
    X = lo + np.mod(XU - lo, L)
    K = int(rng.integers(1, 4))
    types = gc.make_types(rng, N, K)
    diam_map = {k: float(rng.uniform(0.7, 1.6)) for k in range(1, 4)}
    if rng.random() < 0.3:
        diam_map = {1: 1.0, 2: 1.0, 3: 1.0}
    diam = np.array([diam_map[t] for t in types])
    unit = 1.0
    if rng.random() < 0.15 and not force_N and not force_T:
        # the same trajectory in another unit of length (SI metres: displacements of 1e-10, mean-squared displacements of 1e-20; fm):
        # every dimensionless column is unchanged, the msd scales with the square of the unit
        unit = float(rng.choice([1e-9, 1e-10, 1e5]))
        L, lo, XU = L * unit, lo * unit, XU * unit
        X = lo + np.mod(XU - lo, L)
        diam_map = {k: v * unit for k, v in diam_map.items()}
        diam = np.array([diam_map[t] for t in types])
        ctx.count("trajectories_in_other_units_of_length")
    a = float(rng.uniform(0.1, 0.6))
    slow = bool(rng.random() < 0.6)
    mode = str(rng.choice(["xu", "x", "both"]))
    variant = "log" if rng.random() < 0.3 else "linear"
    step = int(rng.choice([1, 100, 5000]))
    if variant == "linear":
        ts = int(rng.choice([0, 7, 10000])) + step * np.arange(T)
    else:
        inc = rng.integers(1, 9, size=T - 1)
        ts = np.concatenate([[0], np.cumsum(inc)]) * step + int(rng.choice([0, 50]))
    dt = float(rng.choice([0.002, 0.005, 1.0]))
    qconst = float(rng.choice([2 * np.pi, 7.25, 1.0]))
    cell = {"H": np.diag(L), "L": L, "origin": lo, "tilt": (0, 0, 0), "kind": "ortho", "d": d}
    layout = str(np.random.default_rng([N, T, int(types.sum()), int(abs(XU[0, 0, 0]) * 1e9)]).choice(gc.LAYOUTS))
    xu_snaps = gc.snapshots_from([gc.snapshot_from(cell, None, types, int(ts[t]), positions=XU[t], layout=layout) for t in range(T)])
    x_snaps = gc.snapshots_from([gc.snapshot_from(cell, None, types, int(ts[t]), positions=X[t], layout=layout) for t in range(T)])
    nlkind = str(rng.choice(["none", "none", "own", "repo"]))
    if force_N:
        nlkind = "none"
    if N < 4:
        nlkind = "none" if nlkind == "repo" else nlkind
    lists = None
    nlfile = ""
    if nlkind == "own":
        lists = [random_lists(rng, N) for _ in range(T)]
        nlfile = os.path.join(wd, "nl_own.dat")
        write_nl(nlfile, lists)
    elif nlkind == "repo":
        nlfile = os.path.join(wd, "nl_repo.dat")
        Nn = int(rng.integers(1, min(N - 1, 6)))
        Nnearests(x_snaps, Nn, np.ones(d, dtype=int), nlfile)
        from .C05 import parse_file
        _h, fr = parse_file(nlfile)
        lists = [[[int(v) - 1 for v in row[2:]] for row in sorted(rows, key=lambda r: int(r[0]))] for rows in fr]
    selkind = str(rng.choice(["none", "none", "const", "vary"]))
    cond = None
    if selkind != "none":
        if variant == "log":
            cond = rng.random(N) < 0.6
            cond[:2] = True
        elif selkind == "const":
            m = max(2, int(rng.integers(2, N + 1)))
            cond = np.zeros((T, N), dtype=bool)
            for t in range(T):
                cond[t, rng.choice(N, size=m, replace=False)] = True
        else:
            cond = rng.random((T, N)) < 0.6
            cond[:, :2] = True
    ppp = np.ones(d, dtype=int) if mode == "x" else (np.zeros(d, dtype=int) if rng.random() < 0.5 else np.ones(d, dtype=int))
    # premise for the wrapped mode
    maxdisp = max(np.abs(XU[t2] - XU[t1]).max() for t1 in range(T) for t2 in range(t1 + 1, T))
    if mode == "x" and maxdisp >= 0.45 * L.min():
        mode = "xu"
        ppp = np.zeros(d, dtype=int)
    kw = dict(dt=dt, ppp=ppp, diameters=diam_map, a=a, cal_type="slow" if slow else "fast", neighborfile=nlfile, max_neighbors=30)
    if mode == "xu":
        kw["xu_snapshots"] = xu_snaps
    elif mode == "x":
        kw["x_snapshots"] = x_snaps
    else:
        kw["xu_snapshots"], kw["x_snapshots"] = xu_snaps, x_snaps
    ref, tie = reference(XU, ts, dt, diam, a, slow, qconst, cond, lists, variant == "log", d)
    if tie or not np.isfinite(ref).all():
        ctx.skip("relaxation")
        return
    cls = f"{variant}/{mode}/{d}D/{kind}/{'slow' if slow else 'fast'}/sel-{selkind}/nl-{nlkind}"
    info = lambda: {"class": cls, "layout": layout, "T": T, "N": N, "timesteps": ts, "dt": dt, "L": L, "origin": lo, "diameters": diam_map, "a": a,  # noqa: E731
                    "qconst": qconst, "types": types, "XU": XU if XU.size <= 600 else "omitted", "condition": cond, "lists": lists if N <= 12 else "omitted"}
    klass = Dynamics if variant == "linear" else LogDynamics
    key = ("Dynamics" if variant == "linear" else "LogDynamics") + ".relaxation/" + mode + ("/cage" if lists else "") + ("/fast" if not slow else "") + ("/sel" if cond is not None else "")
    outfile = os.path.join(wd, "rel.csv") if rng.random() < 0.15 else ""
    def cond_rep():
        """the selection in the representation the caller holds it in (R7): fresh copy, Fortran order, strided view, read-only"""
        if cond is None:
            return None
        r = (N + T) % 4
        if r == 1 and cond.ndim == 2:
            return np.asfortranarray(cond)
        if r == 2:
            big = np.zeros(cond.shape[:-1] + (2 * cond.shape[-1] + 1,), dtype=bool)
            big[..., 1::2] = cond
            return big[..., 1::2]
        c = cond.copy()
        if r == 3:
            c.setflags(write=False)
        return c
    carg = cond_rep()
    ok, res = ctx.call(key, lambda: klass(**kw).relaxation(qconst=qconst, condition=carg, outputfile=outfile), data=info)
    if ok and cond is not None:
        ctx.check("selection_untouched", np.array_equal(np.asarray(carg), cond), key + "/selection_modified", "the caller's selection array was modified", info)
    ctx.case(cls.rsplit("/sel", 1)[0], XU, ts, types, a, qconst, nontrivial=T >= 3 and N >= 4,
             sample={"class": cls, "T": T, "N": N, "d": d, "timesteps": ts, "dt": dt, "a": a, "qconst": qconst})
    if lists:
        ctx.count("cage_relative_cases")
    if not slow:
        ctx.count("fast_mode_cases")
    if cond is not None:
        ctx.count("selection_cases")
    if not ok:
        return
    cols = "t isf Qt X4_Qt msd alpha2".split()
    mon = "relaxation" if variant == "linear" else "log_relaxation"
    if not ctx.check(mon, list(res.columns) == cols and len(res) == T - 1, key + "/layout", lambda: f"columns {list(res.columns)} rows {len(res)}", info):
        return
    got = res.values.astype(float)
    for j, c in enumerate(cols):
        if c == "X4_Qt":
            if variant == "linear" and cond is not None and selkind == "vary":
                ctx.skip("chi4", T - 1)
                continue
            ctx.close("chi4", got[:, j], ref[:, j], key + "/chi4", rtol=1e-9, atol=1e-9 * max(1, N), what="chi4", data=info)
            continue
        ctx.close(mon, got[:, j], ref[:, j], key + "/" + c, rtol=1e-9, atol=1e-12, scale=max(1.0, np.abs(ref[:, j]).max()), what=c, data=info)
    if outfile:
        import pandas as pd
        back = pd.read_csv(outfile)
        ctx.check(mon, back.shape == res.shape and np.allclose(back.values, res.values, rtol=1e-12, atol=0), key + "/csv", "CSV differs from returned frame", info)
        os.remove(outfile)
    # history on ONE object: another selection / wave number / S4 request first, then the case's own request must still follow the definition
    if rng.random() < 0.35:
        if variant == "log":
            oc = rng.random(N) < 0.5
            oc[-2:] = True
        else:
            oc = rng.random((T, N)) < 0.5
            oc[:, -2:] = True
        first = str(rng.choice(["other_selection", "no_selection", "other_q", "sq4_first"]))

        def history():
            obj = klass(**kw)
            if first == "other_selection":
                obj.relaxation(qconst=qconst, condition=oc)
            elif first == "no_selection":
                obj.relaxation(qconst=qconst, condition=None)
            elif first == "other_q":
                obj.relaxation(qconst=qconst * 0.61, condition=None if cond is None else cond.copy())
            elif variant == "linear":
                try:
                    obj.sq4(t=float((ts[1] - ts[0]) * dt), qrange=2.5 * np.pi / L.min() * 2, condition=oc)
                except ZeroDivisionError:
                    pass            # empty mobility subset: outside the domain, only used as history here
            return obj.relaxation(qconst=qconst, condition=None if cond is None else cond.copy())
        okh, resh = ctx.call(key + "/object_history", history, data=info)
        if okh:
            goth = resh.values.astype(float)
            colsel = [j for j, c in enumerate(cols) if not (c == "X4_Qt" and variant == "linear" and cond is not None and selkind == "vary")]
            ctx.close("object_history", goth[:, colsel], ref[:, colsel], key + "/object_history", rtol=1e-9, atol=1e-9 * max(1, N),
                      what=f"relaxation() after {first} on the same object", data=lambda: {**info(), "first_call": first}, n=1)
    # relational: wrapped + periodic flags == unwrapped, whenever no displacement exceeds L/2
    if variant == "linear" and maxdisp < 0.45 * L.min() and rng.random() < 0.5:
        kx = dict(kw)
        kx.pop("xu_snapshots", None)
        kx["x_snapshots"] = x_snaps
        kx["ppp"] = np.ones(d, dtype=int)
        ku = dict(kw)
        ku.pop("x_snapshots", None)
        ku["xu_snapshots"] = xu_snaps
        ku["ppp"] = np.zeros(d, dtype=int)
        ok1, r1 = ctx.call(key, lambda: Dynamics(**kx).relaxation(qconst=qconst, condition=cond), data=info)
        ok2, r2 = ctx.call(key, lambda: Dynamics(**ku).relaxation(qconst=qconst, condition=cond), data=info)
        if ok1 and ok2:
            ctx.close("wrapped_vs_unwrapped", r1.values, r2.values, "Dynamics.relaxation/wrapped_vs_unwrapped", rtol=1e-9, atol=1e-10,
                      what="wrapped run vs unwrapped run", data=info, n=1)
    # four-point structure factor
    # (not in other units of length: the library groups the wave vectors by |q| rounded to a fixed number of decimals -- documented for S(q),
    # C04 -- so the row structure of S4 is tied to the usual units; C06 pins the values, not that grouping)
    if variant == "linear" and T >= 3 and unit == 1.0 and rng.random() < 0.6:
        lag = int(rng.integers(1, T - 1))
        tchar = lag * step * dt * float(rng.uniform(0.8, 1.2) if step * dt > 0 else 1)
        n_t = round(tchar / ((ts[1] - ts[0]) * dt))
        if abs(tchar / ((ts[1] - ts[0]) * dt) - n_t - 0.5) < 1e-6 or abs(tchar / ((ts[1] - ts[0]) * dt) - n_t + 0.5) < 1e-6 or n_t < 1 or n_t > T - 1:
            return
        possrc = XU if mode == "xu" else X          # docs: the x-trajectory when both are given
        target = rng.uniform(4.2, 9.8 if d == 3 else 16.8)
        if abs(target - round(target)) < 1e-3:
            target += 0.01
        qrange = target * np.pi / L.max()
        numofq = int(qrange * 2.0 / (2 * np.pi / L).min())
        nv = default_qset(d, numofq)
        if len(nv) == 0:
            return
        qv = 2 * np.pi * nv / L[None, :]
        qn = np.linalg.norm(qv, axis=1)
        uq = np.unique(np.round(qn, 8))
        gaps = np.diff(np.sort(qn))
        if np.any((gaps > 1e-9) & (gaps < 1e-6)):
            return
        acc = np.zeros(len(uq))
        empty = False
        c2 = (a * diam) ** 2
        for t0 in range(T - n_t):
            D = XU[t0 + n_t] - XU[t0]
            if lists is not None:
                D = D - np.array([D[l].mean(axis=0) for l in lists[t0]])
            d2 = (D ** 2).sum(axis=1)
            mob = (d2 < c2) if slow else (d2 > c2)
            if cond is not None:
                mob = mob & cond[t0]
            if mob.sum() == 0:
                empty = True
                break
            F = np.exp(-1j * (possrc[t0][mob] @ qv.T)).sum(axis=0)
            Sv = np.abs(F) ** 2 / mob.sum()
            acc += np.array([Sv[np.abs(qn - v) < 5e-7].mean() for v in uq])
        if empty:
            ctx.skip("sq4")
            return
        acc /= (T - n_t)
        s4file = os.path.join(wd, "s4.csv") if rng.random() < 0.25 else ""
        prior = bool(rng.random() < 0.4)      # history: another S4 request (other lag, other wave-number range) on the same object first
        prior_same_lag = bool(rng.random() < 0.5)
        prior_mask = rng.random((T, N)) < 0.7
        prior_mask[:, :2] = True

        def s4call():
            obj = Dynamics(**kw)
            if prior:
                try:
                    if prior_same_lag:
                        # ... the SAME lag and range with another selection: whatever the object keeps per (lag, range) must not carry it over
                        obj.sq4(t=tchar, qrange=qrange, condition=prior_mask)
                    else:
                        obj.sq4(t=float((ts[1] - ts[0]) * dt), qrange=qrange * 0.55, condition=None)
                except ZeroDivisionError:
                    pass
                ctx.count("sq4_object_history")
            return obj.sq4(t=tchar, qrange=qrange, condition=c4, outputfile=s4file)
        c4 = None if cond is None else cond.copy()
        ok4, s4 = ctx.call("Dynamics.sq4", s4call, data=info)
        if ok4 and cond is not None:
            ctx.check("selection_untouched", np.array_equal(c4, cond), "Dynamics.sq4/selection_modified", "the caller's selection array was modified", info)
        if ok4:
            good = list(s4.columns) == ["q", "Sq"] and len(s4) == len(uq)
            if ctx.check("sq4", good, "Dynamics.sq4/layout", lambda: f"columns {list(s4.columns)} rows {len(s4)} expected {len(uq)}", info):
                ctx.close("sq4", s4["q"].values, uq, "Dynamics.sq4/q", rtol=0, atol=1e-7, what="q column", data=info, n=1)
                ctx.close("sq4", s4["Sq"].values, acc, "Dynamics.sq4/values", rtol=1e-9, atol=0.6e-8, scale=max(1.0, acc.max()),
                          what=f"S4 (lag {n_t} frames, mode {mode})", data=lambda: {**info(), "t": tchar, "qrange": qrange})
            if s4file:
                import pandas as pd
                back = pd.read_csv(s4file)
                ctx.check("sq4", back.shape == s4.shape and np.allclose(back.values, s4.values, rtol=1e-12, atol=0), "Dynamics.sq4/csv",
                          "CSV differs from the returned frame", info)


def run(ctx):
    from ..harness import fresh_dir, drop_dir
    wd = fresh_dir("c06")
    if ctx.shard == 0 or ctx.thorough:
        for _ in range(2):
            one_case(ctx, ctx.rng(), wd, force_N=int(ctx.rng().choice([1100, 2050, 3000])))
        one_case(ctx, ctx.rng(), wd, force_T=int(ctx.rng().choice([131, 150, 259])))
    n = ctx.n(900, 800)
    for _ in range(n):
        one_case(ctx, ctx.rng(), wd)
        for f in os.listdir(wd):
            os.remove(os.path.join(wd, f))
        if ctx.out_of_time():
            break
    drop_dir(wd)
