"""C17 — local order parameters (S2, tetrahedral, nematic, gyration) equal their definitions."""
from __future__ import annotations

import os

import numpy as np
from scipy.special import xlogy

from ..gen import config as gc
from ..ref import geom
from .C06 import random_lists, write_nl

SPEC = {
    "quick_procs": 2, "thorough_procs": 16, "timeout_quick": 400, "timeout_thorough": 2400,
    "anchors": ["PyMatterSim.static.pairentropy:s2_integral", "PyMatterSim.static.pairentropy:S2.particle_s2",
                "PyMatterSim.static.geometric:q8_tetrahedral", "PyMatterSim.static.nematic:NematicOrder.tensor",
                "PyMatterSim.static.shape:gyration_tensor"],
    "must_reach": ["PyMatterSim.static.pairentropy:s2_integral", "PyMatterSim.static.pairentropy:S2.particle_s2",
                   "PyMatterSim.static.geometric:q8_tetrahedral", "PyMatterSim.static.nematic:NematicOrder.tensor",
                   "PyMatterSim.static.shape:gyration_tensor"],
    "floors": {"tetrahedral_sheared_trajectories": 5, "nematic_second_call": 100, "s2": 500, "s2_gr": 500, "s2_sparse_cases": 8, "tetrahedral": 500, "tetrahedral_N5_cases": 5, "diamond": 16,
               "tetra_nonneighbour": 30, "nematic_tensor": 300, "nematic_scalar": 300, "nematic_eig_equals_trace": 300,
               "gyration": 300, "gyration_2d_cases": 30},
    "rule": ("S2: {2D,3D} x K 1..2 x width matrices x (rdelta, ndelta) x masks x {dense, sparse} x {orthogonal, triclinic}; "
             "tetrahedral: 3D N 5..60 incl. N=5, diamond lattice, moving a non-neighbour; nematic: unit-vector fields x own "
             "neighbour lists x eigvals on/off; gyration: clouds N 2..200 {isotropic, rod, disc, collinear} in 2D and 3D; "
             "non-trivial = N>=3; distinct = digest of the inputs"),
    "assumptions": ["0*ln 0 = 0 in the S2 integrand", "S2 range below half the smallest perpendicular width for triclinic cells",
                    "tetrahedral: particles whose 4th and 5th neighbour distances differ by < 1e-9 are ties",
                    "nematic order is implemented for two dimensions only (the library asserts ndim == 2)",
                    "gyration: |R_g - 1| > 1e-3 (the documented fractal dimension log N / log R_g is singular at R_g = 1)"],
}


def case_s2(ctx, rng, wd, sparse):
    from PyMatterSim.static.pairentropy import S2
    d = int(rng.choice([2, 3]))
    K = int(rng.integers(1, 3))
    frames = int(rng.choice([1, 2]))
    cellkind = str(rng.choice(["ortho", "ortho", "tri"]))
    N = int(rng.integers(3, 28))
    bigsys = N >= 26 and not sparse
    if bigsys:
        N = int(rng.choice([130, 260]))           # beyond the usual size
        ctx.count("s2_systems_beyond_usual_size")
    cell = gc.make_cell(rng, d, cellkind, lmin=(12 if sparse else 3.5) * ((N / 20.0) ** (1.0 / d) if bigsys else 1.0),
                        lmax=(25 if sparse else 8) * ((N / 20.0) ** (1.0 / d) if bigsys else 1.0))
    types = gc.make_types(rng, N, K)
    Kr = len(np.unique(types))
    gap_labels = False
    if rng.random() < 0.2:
        # a sample that holds only SOME species of the force field (labels 1 and 3 of three, or only label 2): the width table is
        # indexed by the labels themselves
        gap_labels = True
        Kr = int(types.max()) + int(rng.integers(1, 3))
        remap = np.sort(rng.choice(np.arange(1, Kr + 1), size=len(np.unique(types)), replace=False))
        types = remap[np.searchsorted(np.unique(types), types)]
        ctx.count("s2_species_labels_with_gaps")
    # sheared trajectories (equal edge lengths, an own tilt per frame): every frame has its own cell matrix
    shear = cellkind == "tri" and frames > 1 and rng.random() < 0.5
    cells = [cell] + [gc.retilt(rng, cell) if shear else cell for _ in range(frames - 1)]
    snaps = gc.snapshots_from([gc.snapshot_from(cells[t], rng.random((N, d)), types, 10 * t) for t in range(frames)])
    if shear:
        cellkind = "tri/sheared"
    ppp = gc.random_mask(rng, d)
    gc.unwrap_in_place(rng, snaps.snapshots, [c["H"] for c in cells], ppp)       # unwrapped coordinates
    sig = rng.uniform(0.03, 0.08, size=(Kr, Kr)) if sparse else rng.uniform(0.08, 0.3, size=(Kr, Kr))
    sig = 0.5 * (sig + sig.T)
    ra = min(geom.agreement_radius(c["H"], ppp) for c in cells)
    Lmin = float(np.diag(cell["H"]).min())
    rmax_target = float(rng.uniform(0.25, 0.6) * Lmin) if not bigsys else float(rng.uniform(1.0, 2.5))
    if np.isfinite(ra) and not cellkind.startswith("ortho"):
        rmax_target = min(rmax_target, 0.9 * ra)
    ndelta = int(rng.integers(15, 80))
    rdelta = rmax_target / ndelta
    V = float(np.prod(np.diag(cell["H"])))
    rho = N / V
    bins = (np.arange(ndelta) + 0.5) * rdelta
    rmax = bins.max()
    savegr = bool(rng.random() < 0.3)
    out = "s2.npy" if savegr or rng.random() < 0.2 else ""
    info = lambda: {"d": d, "N": N, "K": Kr, "cell": cellkind, "H": [c["H"] for c in cells], "ppp": ppp, "sigmas": sig, "rdelta": rdelta, "ndelta": ndelta,  # noqa: E731
                    "sparse": sparse, "types": types, "positions": [s.positions for s in snaps.snapshots] if N <= 12 else "omitted"}
    key = "S2.particle_s2" + ("/sparse" if sparse else "")
    if rng.random() < 0.3:
        # history: the same trajectory analysed immediately before with ONE argument changed (other widths, other bin width, other mask)
        u = rng.random()
        if u < 0.35:
            ctx.call(key + "/prior_call", lambda: S2(snaps, sig * 1.3, ppp, rdelta, ndelta).particle_s2(savegr=False, outputfile=""), data=info)
        elif u < 0.7:
            ctx.call(key + "/prior_call", lambda: S2(snaps, sig.copy(), ppp, rdelta * 0.8, ndelta).particle_s2(savegr=False, outputfile=""), data=info)
        else:
            ctx.call(key + "/prior_call", lambda: S2(snaps, sig.copy(), 1 - ppp, rdelta, ndelta).particle_s2(savegr=False, outputfile=""), data=info)
        ctx.count("s2_prior_call_one_argument_changed")
    again = bool(rng.random() < 0.3)       # history: the SAME object asked twice; the second answer is monitored

    def go():
        obj = S2(snaps, sig.copy(), ppp, rdelta, ndelta)
        r_ = obj.particle_s2(savegr=savegr, outputfile=out)
        if again:
            ctx.count("s2_second_call_on_same_object")
            r_ = obj.particle_s2(savegr=savegr, outputfile=out)
        return r_
    ok, res = ctx.call(key + ("/second_call" if again else ""), go, data=info)
    ctx.case(f"s2/{d}D/{cellkind}/{'sparse' if sparse else 'dense'}", snaps.snapshots[0].positions, types, sig, rdelta, ndelta, ppp, nontrivial=N >= 3,
             sample={"d": d, "N": N, "K": Kr, "cell": cellkind, "ppp": ppp, "rdelta": rdelta, "ndelta": ndelta, "sparse": sparse})
    if sparse:
        ctx.count("s2_sparse_cases")
    if not ok:
        return
    s2 = res[0] if savegr else res
    grs = res[1] if savegr else None
    s2 = np.asarray(s2)
    if not ctx.check("s2", s2.shape == (frames, N), key + "/shape", f"shape {s2.shape}", info):
        return
    norms = (2 * np.pi * bins * rho) if d == 2 else (4 * np.pi * bins ** 2 * rho)
    for t, s in enumerate(snaps.snapshots):
        _v, dist, _ = geom.pair_table(s.positions, cells[t]["H"], ppp)
        if np.any(np.abs(dist[~np.eye(N, dtype=bool)] - rmax) < 1e-9):
            ctx.skip("s2")
            continue
        exp = np.zeros(N)
        gexp = np.zeros((N, ndelta))
        for i in range(N):
            g = np.zeros(ndelta)
            for j in range(N):
                if j != i and dist[i, j] < rmax:
                    sg = sig[types[i] - 1, types[j] - 1]
                    g += np.exp(-(bins - dist[i, j]) ** 2 / (2 * sg ** 2)) / np.sqrt(2 * np.pi * sg ** 2)
            g /= norms
            gexp[i] = g
            y = (xlogy(g, g) - g + 1) * bins ** (d - 1)
            exp[i] = -(d - 1) * np.pi * rho * np.sum(0.5 * (y[1:] + y[:-1]) * np.diff(bins))
        ctx.close("s2", s2[t], exp, key + "/value", rtol=1e-9, atol=1e-12, scale=max(1.0, np.abs(exp).max()), what=f"frame {t}: pair entropy", data=info)
        if grs is not None:
            ctx.close("s2_gr", np.asarray(grs)[t], gexp, key + "/particle_gr", rtol=1e-9, atol=1e-13, scale=max(1.0, gexp.max()), what="smeared particle g(r)", data=info)
        else:
            ctx.count("s2_gr", N)
    for f in ("s2.npy", "particle_gr.s2.npy"):
        if os.path.exists(f):
            if f == "s2.npy":
                ctx.check("s2", np.array_equal(np.load(f), s2), key + "/file", "saved S2 differs from returned", info)
            os.remove(f)


DIAMOND = np.array([[0, 0, 0], [0, .5, .5], [.5, 0, .5], [.5, .5, 0], [.25, .25, .25], [.25, .75, .75], [.75, .25, .75], [.75, .75, .25]])


def tetra_ref(pos, H, ppp):
    N = len(pos)
    vec, dist, _ = geom.pair_table(pos, H, ppp)
    out = np.zeros(N)
    tie = np.zeros(N, dtype=bool)
    nn = []
    for i in range(N):
        di = dist[i].copy()
        di[i] = np.inf
        order = np.argsort(di)
        if N > 5 and abs(di[order[3]] - di[order[4]]) < 1e-9:
            tie[i] = True
        four = order[:4]
        nn.append(set(int(v) for v in four))
        s = 0.0
        for a in range(3):
            for b in range(a + 1, 4):
                c = vec[i, four[a]] @ vec[i, four[b]] / (dist[i, four[a]] * dist[i, four[b]])
                s += (c + 1.0 / 3) ** 2
        out[i] = 1 - 3.0 / 32 * s
    return out, tie, nn, dist


def case_tetra(ctx, rng, wd, n5=False, diamond=False):
    from PyMatterSim.static.geometric import q8_tetrahedral
    if diamond:
        m = int(rng.choice([1, 2]))
        a = float(rng.uniform(2.0, 6.0))
        cellv = np.array([[i, j, k] for i in range(m) for j in range(m) for k in range(m)])
        frac = (DIAMOND[None, :, :] + cellv[:, None, :]).reshape(-1, 3) / m
        cell = {"H": np.eye(3) * a * m, "L": np.ones(3) * a * m, "origin": rng.uniform(-3, 3, size=3), "tilt": (0, 0, 0), "kind": "ortho", "d": 3}
        frac = (frac + rng.random(3)) % 1.0
        frac = frac[rng.permutation(len(frac))]
        ppp = np.ones(3, dtype=int)
    else:
        N = 5 if n5 else int(rng.integers(5, 61))
        cell = gc.make_cell(rng, 3, str(rng.choice(["ortho", "ortho", "tri"])), lmin=4, lmax=9)
        if not n5 and N >= 52:
            # beyond the usual size and strongly inhomogeneous: compact droplets with a dilute vapour between them (a cell / grid based
            # neighbour search sized for the mean density finds the wrong "nearest four" exactly here)
            N = int(rng.choice([70, 130, 200, 300]))
            nv = max(4, N // 8)
            k = int(rng.integers(2, 5))
            centres = rng.random((k, 3))
            frac = np.vstack([(centres[rng.integers(0, k, N - nv)] + rng.normal(0, 0.025, (N - nv, 3))) % 1.0, rng.random((nv, 3))])
            frac = frac[rng.permutation(N)]
            ctx.count("tetrahedral_droplet_cases")
        else:
            frac = gc.make_frac(rng, 3, N, str(rng.choice(["gas", "lattice", "cluster", "hardcore"])))
        ppp = gc.random_mask(rng, 3)
    N = len(frac)
    frames = 1 if diamond else int(rng.choice([1, 2]))
    # sheared trajectories (equal edge lengths, an own tilt per frame): every frame has its own cell matrix
    tcells = [cell] + [gc.retilt(rng, cell) if (cell["kind"].startswith("tri") and rng.random() < 0.6) else cell for _ in range(frames - 1)]
    if any(c is not cell for c in tcells):
        ctx.count("tetrahedral_sheared_trajectories")
    snaps = gc.snapshots_from([gc.snapshot_from(tcells[t], (frac + (rng.normal(0, 0.02, frac.shape) if t else 0)) % 1.0, np.ones(N, dtype=int), t) for t in range(frames)])
    if not diamond:
        gc.unwrap_in_place(rng, snaps.snapshots, [c["H"] for c in tcells], ppp)       # unwrapped coordinates
    info = lambda: {"N": N, "H": [c["H"] for c in tcells], "ppp": ppp, "diamond": diamond, "positions": snaps.snapshots[0].positions if N <= 16 else "omitted"}  # noqa: E731
    key = "q8_tetrahedral" + ("/N==5" if N == 5 else "")
    out = "tet.npy" if rng.random() < 0.2 else ""
    ok, res = ctx.call(key, q8_tetrahedral, snaps, ppp, out, data=info)
    ctx.case("tetra/" + ("diamond" if diamond else ("N5" if N == 5 else cell["kind"])), snaps.snapshots[0].positions, cell["H"], ppp, nontrivial=True,
             sample={"N": N, "ppp": ppp, "diamond": diamond, "cell": cell["kind"]})
    if N == 5:
        ctx.count("tetrahedral_N5_cases")
    if not ok:
        return
    res = np.asarray(res)
    if not ctx.check("tetrahedral", res.shape == (frames, N), key + "/shape", f"shape {res.shape}", info):
        return
    ra = min(geom.agreement_radius(c["H"], ppp) for c in tcells)
    for t, s in enumerate(snaps.snapshots):
        exp, tie, nn, dist = tetra_ref(s.positions, tcells[t]["H"], ppp)
        far = np.array([max(dist[i, j] for j in nn[i]) >= ra for i in range(N)])
        use = ~tie & ~far
        ctx.skip("tetrahedral", int((~use).sum()))
        if use.any():
            ctx.close("tetrahedral", res[t][use], exp[use], key + "/value", rtol=1e-10, atol=1e-12, what="1 - 3/32 sum (cos+1/3)^2 over the four nearest", data=info)
        if diamond:
            ctx.close("diamond", res[t], np.ones(N), "q8_tetrahedral/diamond", rtol=0, atol=1e-12, what="perfect tetrahedral coordination", data=info)
    if out and os.path.exists(out):
        ctx.check("tetrahedral", np.array_equal(np.load(out), res), key + "/file", "saved file differs", info)
        os.remove(out)
    # relational: moving a non-neighbour (far from everyone's first four shells) changes nothing for the others
    if not diamond and N >= 8 and frames == 1 and geom.is_orthogonal(cell["H"]):
        exp, tie, nn, dist = tetra_ref(snaps.snapshots[0].positions, cell["H"], ppp)
        k = int(rng.integers(0, N))
        affected = np.array([k in nn[i] for i in range(N)])
        affected[k] = True
        pos2 = snaps.snapshots[0].positions.copy()
        d4 = np.array([max(dist[i, j] for j in nn[i]) for i in range(N)])
        # move k by a small amount that cannot bring it inside anyone's 4th-neighbour shell
        gap = np.array([dist[i, k] - d4[i] for i in range(N) if not affected[i]])
        if len(gap) and gap.min() > 1e-3:
            delta = rng.normal(size=3)
            delta *= 0.4 * gap.min() / np.linalg.norm(delta)
            pos2[k] += delta
            s2 = gc.snapshots_from([gc.snapshot_from(cell, None, np.ones(N, dtype=int), 0, positions=pos2)])
            ok2, r2 = ctx.call(key, q8_tetrahedral, s2, ppp, "", data=info)
            if ok2:
                un = ~affected
                ctx.close("tetra_nonneighbour", np.asarray(r2)[0][un], res[0][un], "q8_tetrahedral/nonneighbour_moved", rtol=0, atol=1e-12,
                          what="value changed although only a non-neighbour moved", data=info, n=int(un.sum()))


def case_nematic(ctx, rng, wd):
    from PyMatterSim.static.nematic import NematicOrder
    T = int(rng.integers(1, 4))
    N = int(rng.integers(3, 30))
    ang = rng.uniform(0, 2 * np.pi, size=(T, N))
    if rng.random() < 0.3:
        ang = rng.normal(0.4, 0.2, size=(T, N))
    U = np.stack([np.cos(ang), np.sin(ang)], axis=2)
    cell = gc.make_cell(rng, 2, "ortho")
    ori = gc.snapshots_from([gc.snapshot_from(cell, None, np.ones(N, dtype=int), t, positions=U[t]) for t in range(T)])
    use_nl = rng.random() < 0.6
    lists = None
    fn = ""
    if use_nl:
        lists = [random_lists(rng, N) for _ in range(T)]
        fn = os.path.join(wd, "nl.dat")
        write_nl(fn, lists)
    eig = bool(rng.random() < 0.5)
    info = lambda: {"T": T, "N": N, "eigvals": eig, "neighbours": use_nl, "angles": ang if N <= 12 else "omitted", "lists": lists if N <= 12 else "omitted"}  # noqa: E731
    key = "NematicOrder.tensor" + ("/eigvals" if eig else "/trace") + ("/neighbours" if use_nl else "")
    obj = NematicOrder(ori, None)
    ok, res = ctx.call(key, obj.tensor, 2, fn, 30, eig, "nem", data=info)
    ctx.case(f"nematic/{'eig' if eig else 'trace'}/{'nl' if use_nl else 'raw'}", U, lists, nontrivial=True, sample={"T": T, "N": N, "eigvals": eig, "neighbours": use_nl})
    if not ok:
        return
    Q = np.einsum("tia,tib->tiab", U, U) - 0.5 * np.eye(2)[None, None]       # (2 u u^T - I)/2
    if use_nl:
        Qa = np.empty_like(Q)
        for t in range(T):
            for i in range(N):
                Qa[t, i] = Q[t, [i] + lists[t][i]].mean(axis=0)
        Q = Qa
    ctx.close("nematic_tensor", np.asarray(obj.QIJ), Q, key + "/tensor", rtol=1e-10, atol=1e-13, what="Q tensor", data=info)
    tr = np.sqrt(2 * np.einsum("tiab,tiba->ti", Q, Q))
    lam = 2 * np.linalg.eigvalsh(Q).max(axis=2)
    ctx.close("nematic_scalar", np.asarray(res), lam if eig else tr, key + "/scalar", rtol=1e-9, atol=1e-12, what="scalar order", data=info)
    # on the real code: the other mode must give the same number in 2D
    obj2 = NematicOrder(ori, None)
    ok2, res2 = ctx.call(key, obj2.tensor, 2, fn, 30, not eig, "nem2", data=info)
    if ok2:
        ctx.close("nematic_eig_equals_trace", np.asarray(res2), np.asarray(res), "NematicOrder.tensor/eig_vs_trace", rtol=1e-8, atol=1e-9,
                  what="sqrt(2 tr Q^2) vs twice the largest eigenvalue", data=info)
    # history: the SAME object asked again (other mode, then with / without the neighbour file) must still follow the definition
    ok3, res3 = ctx.call(key + "/second_call", obj.tensor, 2, fn, 30, not eig, "nem3", data=info)
    if ok3:
        ctx.close("nematic_second_call", np.asarray(res3), tr if eig else lam, key + "/second_call/scalar", rtol=1e-9, atol=1e-12,
                  what="scalar order from a second call on the same object", data=info)
        ctx.close("nematic_second_call", np.asarray(obj.QIJ), Q, key + "/second_call/tensor", rtol=1e-10, atol=1e-13, what="Q tensor after a second call", data=info)
    if use_nl:
        Qraw = np.einsum("tia,tib->tiab", U, U) - 0.5 * np.eye(2)[None, None]
        # history: the neighbour list behind the SAME file name is regenerated (a scan over coarse-graining lengths writes every list to
        # neighborlist.dat) and the same object is asked again: the answer must follow the list the file holds now
        lists2 = [random_lists(rng, N) for _ in range(T)]
        st_ = os.stat(fn)
        write_nl(fn, lists2)
        if rng.random() < 0.5:
            # ... with the time stamp of the old file preserved (cp -p, restored from a backup): the content decides
            os.utime(fn, ns=(st_.st_atime_ns, st_.st_mtime_ns))
            ctx.count("file_replaced_with_preserved_time_stamp")
        ok5, res5 = ctx.call(key + "/file_rewritten", obj.tensor, 2, fn, 30, eig, "nem5", data=info)
        if ok5:
            Q5 = np.empty_like(Qraw)
            for t in range(T):
                for i in range(N):
                    Q5[t, i] = Qraw[t, [i] + lists2[t][i]].mean(axis=0)
            ref5 = 2 * np.linalg.eigvalsh(Q5).max(axis=2) if eig else np.sqrt(2 * np.einsum("tiab,tiba->ti", Q5, Q5))
            ctx.close("nematic_file_rewritten", np.asarray(res5), ref5, key + "/file_rewritten/scalar", rtol=1e-9, atol=1e-12,
                      what="scalar order after the neighbour file was rewritten under the same name", data=info)
            ctx.close("nematic_file_rewritten", np.asarray(obj.QIJ), Q5, key + "/file_rewritten/tensor", rtol=1e-10, atol=1e-13,
                      what="Q tensor after the neighbour file was rewritten under the same name", data=info)
        ok4, res4 = ctx.call(key + "/second_call", obj.tensor, 2, "", 30, eig, "nem4", data=info)
        if ok4:
            ref4 = 2 * np.linalg.eigvalsh(Qraw).max(axis=2) if eig else np.sqrt(2 * np.einsum("tiab,tiba->ti", Qraw, Qraw))
            ctx.close("nematic_second_call", np.asarray(res4), ref4, key + "/second_call/raw_after_coarse", rtol=1e-9, atol=1e-12,
                      what="raw scalar order asked from an object that was coarse-grained before", data=info)
    for f in os.listdir("."):
        if f.startswith("nem"):
            os.remove(f)
    if fn:
        os.remove(fn)


def case_gyration(ctx, rng):
    from PyMatterSim.static.shape import gyration_tensor
    d = int(rng.choice([2, 3]))
    N = int(rng.choice([2, 3, 5, 10, 50, 200])) if rng.random() < 0.5 else int(rng.integers(2, 201))
    kind = str(rng.choice(["isotropic", "rod", "disc", "collinear"]))
    X = rng.normal(size=(N, d)) * rng.uniform(0.3, 5.0)
    if kind == "rod":
        X[:, 1:] *= 0.05
    elif kind == "disc" and d == 3:
        X[:, 2] *= 0.02
    elif kind == "collinear":
        X = np.outer(rng.normal(size=N), rng.normal(size=d)) * 2.0
    if rng.random() < 0.5:
        Rm, _ = np.linalg.qr(rng.normal(size=(d, d)))
        X = X @ Rm.T
    X = X + rng.uniform(-50, 50, size=d)
    far = 0.0
    if rng.random() < 0.25:
        # the same cloud far from the coordinate origin (1e3 .. 1e6 length units): the descriptors are defined through CENTRED moments
        off = rng.normal(size=d)
        off *= 10.0 ** rng.uniform(3, 6) / np.linalg.norm(off)
        X = X + off
        far = float(np.linalg.norm(off))
        ctx.count("gyration_far_from_origin")
    c = X - X.mean(axis=0)
    lam = np.sort(np.linalg.eigvalsh(c.T @ c / N))
    lam = np.maximum(lam, 0)
    Rg = np.sqrt(lam.sum())
    if abs(Rg - 1) < 1e-3 or Rg < 1e-9:
        return
    acyl = lam[1] - lam[0]
    fr = np.log(N) / np.log(Rg)
    if d == 3:
        asp = lam[2] - 0.5 * (lam[0] + lam[1])
        exp = [Rg, asp, acyl, (asp ** 2 + 0.75 * acyl ** 2) / Rg ** 4, fr]
    else:
        exp = [Rg, acyl, fr]
    info = lambda: {"d": d, "N": N, "kind": kind, "points": X if N <= 10 else "omitted"}  # noqa: E731
    ok, res = ctx.call(f"gyration_tensor/{d}D", gyration_tensor, X.copy(), data=info)
    ctx.case(f"gyration/{d}D/{kind}", X, nontrivial=N >= 3, sample={"d": d, "N": N, "kind": kind})
    if d == 2:
        ctx.count("gyration_2d_cases")
    if not ok:
        return
    try:
        got = np.array([float(np.real(v)) for v in res])
        imag = max(abs(float(np.imag(v))) for v in res)
    except Exception:  # noqa: BLE001
        ctx.violation(f"gyration_tensor/{d}D/type", f"returned {res!r}", info())
        return
    if not ctx.check("gyration", len(got) == len(exp) and imag == 0, f"gyration_tensor/{d}D/layout", f"returned {len(got)} descriptors (imag part {imag})", info):
        return
    sc = max(1.0, float(lam.max()))
    tol = np.array([1e-9 * max(1, Rg), 1e-9 * sc, 1e-9 * sc, 1e-7, 1e-7 * max(1.0, abs(fr))] if d == 3 else [1e-9 * max(1, Rg), 1e-9 * sc, 1e-7 * max(1.0, abs(fr))])
    # coordinates at distance |r| carry an absolute rounding of eps*|r|: centred moments are then defined to eps*|r|/Rg relative
    tol = tol * (1.0 + 2e3 * np.finfo(float).eps * far / max(Rg, 1e-12) / 1e-9)
    bad = np.abs(got - np.array(exp)) > tol
    ctx.check("gyration", not bad.any(), f"gyration_tensor/{d}D/value", lambda: f"descriptors {got.tolist()} vs documented functions of the eigenvalues {list(map(float, exp))}", info)


def run(ctx):
    from ..harness import fresh_dir, drop_dir
    wd = fresh_dir("c17")
    n = ctx.n(160, 200)
    for i in range(n):
        case_s2(ctx, ctx.rng(), wd, sparse=(i % 5 == 0))
        case_tetra(ctx, ctx.rng(), wd, n5=(i % 6 == 0), diamond=(i % 7 == 3))
        case_tetra(ctx, ctx.rng(), wd)
        for _ in range(3):
            case_nematic(ctx, ctx.rng(), wd)
            case_gyration(ctx, ctx.rng())
            case_gyration(ctx, ctx.rng())
        if ctx.out_of_time():
            break
    drop_dir(wd)
