"""C11 — the saved Hessian is the mass-weighted second derivative of the documented pair energy."""
from __future__ import annotations

import os

import numpy as np

from ..gen import config as gc
from ..ref import geom

SPEC = {
    "quick_procs": 2, "thorough_procs": 16, "timeout_quick": 400, "timeout_thorough": 2400,
    "anchors": ["PyMatterSim.static.hessians:HessianMatrix.pair_matrix", "PyMatterSim.static.hessians:HessianMatrix.diagonalize_hessian",
                "PyMatterSim.static.vector:participation_ratio"],
    "must_reach": ["PyMatterSim.static.hessians:HessianMatrix.pair_matrix", "PyMatterSim.static.hessians:HessianMatrix.diagonalize_hessian"],
    "floors": {"hessian_vs_analytic": 5000, "fd_guard": 10, "symmetry": 60, "translations": 25, "frequencies": 60,
               "eigenvectors": 60, "participation": 60, "unequal_mass_cases": 20, "three_d_cases": 20,
               "unwrapped_coordinates_cases": 30, "attribute_reassigned": 15, "other_length_unit": 15},
    "rule": ("{2D,3D} x {Lennard-Jones, inverse power law n in 6..12 with A, harmonic/Hertz alpha in {2,2.5,3} with r_c=sigma} x "
             "K 1..3 symmetric parameter matrices x equal/unequal masses x shift on/off x masks {periodic, partial, open} x "
             "N 4..30 x {orthogonal, triclinic}; non-trivial = at least N interacting pairs; distinct = digest of (positions, types, parameters)"),
    "assumptions": ["pair energy = sum over pairs within the type-pair cut-off of the documented s(r), force-shifted "
                    "s(r)-s(rc)-(r-rc)s'(rc) when shifting is on; derivatives from sympy.diff at run time",
                    "cut-offs below half the smallest perpendicular cell width (one image per pair); pairs within 1e-6 of a cut-off are ties (case regenerated)",
                    "finite-difference guard: 4th-order central differences of the oracle's analytic gradient, rtol 1e-5"],
}


def build_derivs():
    import sympy as sp
    r, e, s, n, A, al = sp.symbols("r epsilon sigma n A alpha", positive=True)
    pots = {"lennard_jones": 4 * e * ((s / r) ** 12 - (s / r) ** 6), "inverse_power_law": A * e * (s / r) ** n,
            "harmonic_hertz": e / al * (1 - r / s) ** al}
    out = {}
    for k, U in pots.items():
        args = (r, e, s, n, A, al)
        out[k] = tuple(sp.lambdify(args, f, "numpy") for f in (U, sp.diff(U, r), sp.diff(U, r, 2)))
    return out


def pair_terms(pos, types, H, ppp, rc, model, par, shift, der):
    """returns list of (i, j, vec_ij (r_j - r_i), r, s1eff, s2) for i<j within cut-off, and min margin to a cut-off"""
    N = len(pos)
    vec, dist, _ = geom.pair_table(pos, H, ppp)
    out = []
    margin = np.inf
    for i in range(N):
        for j in range(i + 1, N):
            a, b = types[i] - 1, types[j] - 1
            c = rc[a, b]
            margin = min(margin, abs(dist[i, j] - c))
            if dist[i, j] <= c:
                args = (par["eps"][a, b], par["sig"][a, b], par["n"], par["A"], par["alpha"])
                s1 = float(der[model][1](dist[i, j], *args))
                s2 = float(der[model][2](dist[i, j], *args))
                s1c = float(der[model][1](c, *args)) if (shift and model != "harmonic_hertz") else 0.0
                out.append((i, j, vec[i, j], dist[i, j], s1 - s1c, s2))
    return out, margin


def hessian_ref(N, d, terms, masses):
    Hm = np.zeros((N * d, N * d))
    for i, j, v, r, s1, s2 in terms:
        u = v / r
        K = s2 * np.outer(u, u) + s1 / r * (np.eye(d) - np.outer(u, u))
        Hm[i * d:(i + 1) * d, i * d:(i + 1) * d] += K / masses[i]
        Hm[j * d:(j + 1) * d, j * d:(j + 1) * d] += K / masses[j]
        Hm[i * d:(i + 1) * d, j * d:(j + 1) * d] -= K / np.sqrt(masses[i] * masses[j])
        Hm[j * d:(j + 1) * d, i * d:(i + 1) * d] -= K / np.sqrt(masses[i] * masses[j])
    return Hm


def gradient(pos, types, H, ppp, rc, model, par, shift, der):
    N, d = pos.shape
    terms, _ = pair_terms(pos, types, H, ppp, rc, model, par, shift, der)
    g = np.zeros((N, d))
    for i, j, v, r, s1, _s2 in terms:
        g[i] -= s1 * v / r
        g[j] += s1 * v / r
    return g.ravel()


def one_case(ctx, rng, der, wd, force3d=False, unequal=False):
    from PyMatterSim.static.hessians import HessianMatrix, InteractionParams, ModelName
    d = 3 if force3d else int(rng.choice([2, 3]))
    model = str(rng.choice(["lennard_jones", "inverse_power_law", "harmonic_hertz"]))
    K = int(rng.integers(1, 4))
    N = int(rng.integers(4, 31 if not ctx.thorough else 45))
    cellkind = str(rng.choice(["ortho", "ortho", "ortho", "tri"]))
    dens = 0.9 if d == 2 else 0.8
    Lbase = (N / dens) ** (1.0 / d)
    cell = gc.make_cell(rng, d, cellkind, lmin=max(3.2, 0.9 * Lbase), lmax=max(3.6, 1.3 * Lbase))
    # another unit of LENGTH (R10: SI metres -- a nanometre cell has tilt factors of 1e-10 --, fm): cell, diameters and cut-offs scale with it
    lu = float(rng.choice([1e-9, 1e-10, 1e5])) if rng.random() < 0.15 else 1.0
    if lu != 1.0:
        cell = dict(cell)
        cell["H"], cell["origin"], cell["tilt"] = cell["H"] * lu, np.asarray(cell["origin"]) * lu, tuple(t_ * lu for t_ in cell["tilt"])
        ctx.count("other_length_unit")
    f = gc.make_frac(rng, d, N, str(rng.choice(["hardcore", "lattice", "hardcore"])))
    N = len(f)
    types = gc.make_types(rng, N, K)
    Kr = len(np.unique(types))
    ppp = gc.random_mask(rng, d)
    if rng.random() < 0.3 and ppp.any():
        # unwrapped coordinates (xu dumps are kept as they are): particles whole cell vectors away from the primary cell along periodic axes --
        # the same periodic configuration, so the same Hessian
        f_given = f + rng.integers(-3, 4, size=f.shape) * ppp[None, :]
        ctx.count("unwrapped_coordinates_cases")
    else:
        f_given = f
    snap = gc.snapshot_from(cell, f_given, types)
    Hc = cell["H"]
    pos_ref = cell["origin"] + f @ Hc      # the oracle works on the images inside the primary cell (its image search covers +-1 cell)
    vec, dist, _ = geom.pair_table(pos_ref, Hc, ppp)
    dmin = float(np.min(dist + np.eye(N) * 1e9))
    if dmin < 0.55 * lu:
        return
    ra = geom.agreement_radius(Hc, ppp)
    sym = lambda M: 0.5 * (M + M.T)  # noqa: E731
    eps_ = sym(rng.uniform(0.5, 2.0, size=(Kr, Kr)))
    if model == "harmonic_hertz":
        sig = sym(rng.uniform(1.05, 1.6, size=(Kr, Kr)))
        sig = np.minimum(sig, 0.95 * ra / lu)
        rc = sig.copy()
    else:
        sig = sym(rng.uniform(0.8, 1.1, size=(Kr, Kr)))
        rc = sym(rng.uniform(1.4, 2.5, size=(Kr, Kr))) * sig
        rc = np.minimum(rc, 0.95 * ra / lu)
    sig, rc = sig * lu, rc * lu
    int_params = False
    if lu == 1.0 and model != "harmonic_hertz" and ra > 2.2 and (N + Kr + d) % 3 == 0:
        # integer-valued parameter tables handed over as INTEGER arrays (np.array([[1, 1], [1, 2]]), r_c = 2): the same numbers, another dtype
        int_params = True
        eps_ = sym(rng.integers(1, 3, size=(Kr, Kr)).astype(float))
        eps_ = np.rint(eps_ + 0.01)
        sig = np.ones((Kr, Kr))
        rc = np.full((Kr, Kr), 2.0)
        ctx.count("integer_dtype_parameter_tables")
    par = {"eps": eps_, "sig": sig, "n": float(rng.choice([6, 8, 9.5, 10, 12])), "A": float(rng.uniform(0.5, 2.0)),
           "alpha": float(rng.choice([2.0, 2.5, 3.0]))}
    shift = bool(rng.random() < 0.6)
    unit = 1.0
    if rng.random() < 0.2 and not int_params:
        # another system of units: energies from 1e-12 to 1e6 of the usual (frequencies^2 down to 1e-12: "zero" is relative)
        unit = float(10.0 ** rng.uniform(-12, 6))
        eps_ = eps_ * unit
        par["eps"] = eps_
        ctx.count("other_energy_unit")
    mass_map = {k: 1.0 for k in range(1, Kr + 1)}
    if unequal or rng.random() < 0.5:
        mass_map = {k: float(rng.choice([0.5, 1.0, 2.0, 3.0, 7.5])) for k in range(1, Kr + 1)}
        if Kr >= 2 and len(set(mass_map.values())) == 1:
            mass_map[2] = mass_map[1] * 3.0
    if rng.random() < 0.4:
        # the dict filled in another order, possibly listing a species that does not occur: masses are looked up by KEY
        ks_ = list(mass_map)
        ks_ = [ks_[j] for j in rng.permutation(len(ks_))]
        mm_ = {}
        if rng.random() < 0.5:
            mm_[Kr + 1] = float(rng.choice([0.25, 5.0, 11.0]))
        for k_ in ks_:
            mm_[k_] = mass_map[k_]
        mass_map = mm_
        ctx.count("mass_dict_in_other_order")
    masses = np.array([mass_map[t] for t in types])
    terms, margin = pair_terms(pos_ref, types, Hc, ppp, rc, model, par, shift, der)
    if margin < 1e-6 * lu or len(terms) == 0:
        ctx.skip("hessian_vs_analytic")
        return
    ip = InteractionParams(model_name=getattr(ModelName, model), ipl_n=par["n"], ipl_A=par["A"], harmonic_hertz_alpha=par["alpha"])
    out = os.path.join(wd, "h")
    info = lambda: {"model": model, "d": d, "N": N, "K": Kr, "cell": cell["kind"], "H": Hc, "ppp": ppp, "shift": shift, "masses": mass_map,  # noqa: E731
                    "epsilons": eps_, "sigmas": sig, "r_cuts": rc, "n": par["n"], "A": par["A"], "alpha": par["alpha"], "types": types,
                    "positions": snap.positions if N <= 20 else "omitted"}
    unequal_m = len(set(masses.tolist())) > 1
    key = f"hessian/{model}" + ("/unequal_masses" if unequal_m else "")
    conv = (lambda M: M.astype(np.int64)) if int_params else (lambda M: M.copy())
    e_arg, s_arg, r_arg = conv(eps_), conv(sig), conv(rc)
    if (N + d) % 4 == 0:
        for a_ in (e_arg, s_arg, r_arg):
            a_.setflags(write=False)            # read-only tables (slices of a read-only configuration object)
    hm = HessianMatrix(snapshot=snap, masses=dict(mass_map), epsilons=e_arg, sigmas=s_arg, r_cuts=r_arg, ppp=ppp, shiftpotential=shift)
    if rng.random() < 0.45:
        # history: the SAME object is asked once before -- for the same matrix, or for ANOTHER exponent / prefactor / stiffness of the
        # same model (a scan over n, A or alpha for one snapshot)
        ip_prior = ip
        if rng.random() < 0.6:
            ip_prior = InteractionParams(model_name=getattr(ModelName, model), ipl_n=par["n"] + 2.0, ipl_A=par["A"] * 1.7,
                                         harmonic_hertz_alpha={2.0: 2.5, 2.5: 3.0, 3.0: 2.0}.get(par["alpha"], 2.0))
            ctx.count("prior_call_other_interaction_parameters")
        ctx.call(key + "/prior_call", hm.diagonalize_hessian, ip_prior, True, True, out + "_prior", data=info)
        ctx.count("second_call_on_same_object")
        for ext in (".hessianmatrix.npy", ".evecs.npy", ".omega_PR.csv"):
            try:
                os.remove(out + "_prior" + ext)
            except OSError:
                pass
    ok, _ = ctx.call(key, hm.diagonalize_hessian, ip, True, True, out, data=info)
    reassign = ok and not int_params and (N * 7 + Kr + d) % 5 == 0
    ctx.check("parameters_untouched", np.array_equal(e_arg, eps_) and np.array_equal(s_arg, sig) and np.array_equal(r_arg, rc) and mass_map == hm.masses
              if hasattr(hm, "masses") else True, key + "/parameters_modified", "a parameter table was modified", info)
    ctx.case(f"{model}/{d}D/{'shift' if shift else 'noshift'}/{'uneq' if unequal_m else 'eq'}-mass/{cell['kind']}", snap.positions, types, eps_, sig, rc, shift, masses,
             nontrivial=len(terms) >= N, sample={"model": model, "d": d, "N": N, "K": Kr, "pairs": len(terms), "shift": shift, "masses": mass_map, "ppp": ppp})
    if unequal_m:
        ctx.count("unequal_mass_cases")
    if d == 3:
        ctx.count("three_d_cases")
    if not ok:
        return
    try:
        Hs = np.load(out + ".hessianmatrix.npy")
        ev = np.load(out + ".evecs.npy")
        import pandas as pd
        om = pd.read_csv(out + ".omega_PR.csv")
    except Exception as e:  # noqa: BLE001
        ctx.violation(key + "/files", f"expected output files missing/unreadable: {e!r}", info())
        return
    Href = hessian_ref(N, d, terms, masses)
    scale = max(1e-300, float(np.abs(Href).max()))          # relative to the matrix itself: no absolute floor (units are arbitrary)
    if not ctx.close("hessian_vs_analytic", Hs, Href, key + "/matrix", rtol=1e-9, atol=1e-12 * scale, scale=scale,
                     what="saved Hessian vs M^-1/2 d2U M^-1/2", data=lambda: {**info(), "block_hint": _block_hint(Hs, Href, d)}):
        pass
    ctx.check("symmetry", np.abs(Hs - Hs.T).max() <= 1e-10 * scale, key + "/symmetry", lambda: f"asymmetry {np.abs(Hs - Hs.T).max():.3g}", info)
    if ppp.all():
        res = 0.0
        for a in range(d):
            t = np.zeros((N, d))
            t[:, a] = np.sqrt(masses)
            res = max(res, float(np.abs(Hs @ t.ravel()).max()))
        ctx.check("translations", res <= 1e-8 * scale * N, key + "/translations",
                  lambda: f"mass-weighted uniform translation not annihilated: residual {res:.3g} (scale {scale:.3g})", info)
    ctx.check("frequencies", list(om.columns) == ["omega", "PR"], key + "/csv_layout", lambda: f"omega_PR.csv has columns {list(om.columns)}, expected ['omega', 'PR']", info)
    lam = np.linalg.eigvalsh(0.5 * (Hs + Hs.T))
    omega = om["omega"].values
    lam_obs = np.where(omega > 0, omega ** 2, omega)
    good = len(omega) == N * d and np.all(np.abs(np.sort(lam_obs) - lam) <= 1e-7 * scale)
    ctx.check("frequencies", bool(good), key + "/frequencies", lambda: f"omega is not sqrt(eigenvalue): {omega[:4]} vs eigenvalues {lam[:4]}", info)
    okv = ev.shape == (N * d, N * d) and np.abs(ev.T @ ev - np.eye(N * d)).max() < 1e-8 and \
        np.abs(Hs @ ev - ev * lam_obs[None, :]).max() <= 1e-7 * scale
    ctx.check("eigenvectors", bool(okv), key + "/eigenvectors", "saved eigenvectors are not an orthonormal eigenbasis of the saved matrix", info)
    PR = om["PR"].values
    ctx.check("participation", bool(np.all(PR > 0) and np.all(PR <= 1 + 1e-12)), key + "/PR", lambda: f"participation ratios outside (0,1]: {PR.min()}..{PR.max()}", info)
    # finite-difference guard of the oracle itself
    if N <= 12 and margin > 5e-3 * lu:
        h = 1e-4 * lu
        x0 = pos_ref.copy()
        Hfd = np.zeros((N * d, N * d))
        for c in range(N * d):
            def g(sh):
                x = x0.copy().ravel()
                x[c] += sh
                return gradient(x.reshape(N, d), types, Hc, ppp, rc, model, par, shift, der)
            Hfd[:, c] = (-g(2 * h) + 8 * g(h) - 8 * g(-h) + g(-2 * h)) / (12 * h)
        Hfd /= np.sqrt(np.repeat(masses, d))[:, None] * np.sqrt(np.repeat(masses, d))[None, :]
        ctx.close("fd_guard", Href, Hfd, "oracle/analytic_vs_finite_difference", rtol=1e-5, atol=1e-7 * scale, scale=scale,
                  what="oracle Hessian vs finite differences of its own gradient", data=info, n=1)
    for ext in (".hessianmatrix.npy", ".evecs.npy", ".omega_PR.csv"):
        try:
            os.remove(out + ext)
        except OSError:
            pass
    if reassign:
        attribute_reassigned(ctx, rng, hm, ip, out, pos_ref, types, Hc, ppp, rc, model, par, shift, der, masses, Href, key, info)


def attribute_reassigned(ctx, rng, hm, ip, out, pos_ref, types, Hc, ppp, rc, model, par, shift, der, masses, Href_old, key, info):
    """history on one object: a public attribute holding a constructor argument (cut-offs; energy scales) is re-assigned and the object is
    asked again (a cut-off / stiffness scan on one HessianMatrix).  Whether an implementation reads its parameters when constructed or
    when called is not pinned by C11, so BOTH readings are accepted -- but the saved matrix must be the Hessian of the documented energy
    for ONE consistent set of parameters, not a mixture of the two (pairs of one cut-off with the shift force of the other)."""
    N, d = pos_ref.shape
    which = "r_cuts" if model != "harmonic_hertz" else "epsilons"
    if not hasattr(hm, which):
        ctx.skip("attribute_reassigned")
        return
    par2, rc2 = dict(par), rc
    if which == "r_cuts":
        rc2 = rc * float(rng.uniform(0.8, 0.93))
        new = rc2.copy()
    else:
        par2["eps"] = par["eps"] * float(rng.uniform(1.5, 3.0))
        new = par2["eps"].copy()
    terms2, margin2 = pair_terms(pos_ref, types, Hc, ppp, rc2, model, par2, shift, der)
    if margin2 < 1e-6 * float(np.abs(Hc).max()) / 10.0 or len(terms2) == 0:
        ctx.skip("attribute_reassigned")
        return
    setattr(hm, which, new)
    ok, _ = ctx.call(key + "/attribute_reassigned", hm.diagonalize_hessian, ip, False, True, out + "_re", data=info)
    if not ok:
        return
    try:
        Hs2 = np.load(out + "_re.hessianmatrix.npy")
    except Exception as e:  # noqa: BLE001
        ctx.violation(key + "/attribute_reassigned/files", f"no matrix saved: {e!r}", info())
        return
    Hnew = hessian_ref(N, d, terms2, masses)
    scale = max(1e-300, float(np.abs(Hnew).max()), float(np.abs(Href_old).max()))
    tol = 1e-9 * scale
    e_new = float(np.abs(Hs2 - Hnew).max()) if Hs2.shape == Hnew.shape else np.inf
    e_old = float(np.abs(Hs2 - Href_old).max()) if Hs2.shape == Href_old.shape else np.inf
    ctx.check("attribute_reassigned", min(e_new, e_old) <= tol, key + "/attribute_reassigned",
              lambda: f"after re-assigning {which} on the object the saved matrix is the Hessian neither of the new parameters (max dev {e_new:.3g}) "
                      f"nor of the ones given at construction ({e_old:.3g}); scale {scale:.3g}",
              lambda: {**info(), "attribute": which, "new_value": new})
    for ext in (".hessianmatrix.npy", ".evecs.npy", ".omega_PR.csv"):
        try:
            os.remove(out + "_re" + ext)
        except OSError:
            pass


def _block_hint(Hs, Href, d):
    e = np.abs(Hs - Href)
    i, j = np.unravel_index(np.argmax(e), e.shape)
    return {"particle_block": [int(i // d), int(j // d)], "diagonal_block": bool(i // d == j // d)}


def run(ctx):
    from ..harness import fresh_dir, drop_dir
    wd = fresh_dir("c11")
    der = build_derivs()
    n = ctx.n(330, 250)
    for i in range(n):
        one_case(ctx, ctx.rng(), der, wd, force3d=(i % 4 == 0), unequal=(i % 3 == 0))
        if ctx.out_of_time():
            break
    drop_dir(wd)
