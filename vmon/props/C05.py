"""C05 — neighbour lists hold exactly the right particles, nearest first, via the file."""
from __future__ import annotations

import os

import numpy as np

from ..gen import config as gc
from ..ref import geom

SPEC = {
    "quick_procs": 2, "thorough_procs": 16, "timeout_quick": 400, "timeout_thorough": 2400,
    "anchors": ["PyMatterSim.neighbors.calculate_neighbors:Nnearests", "PyMatterSim.neighbors.calculate_neighbors:cutoffneighbors",
                "PyMatterSim.neighbors.calculate_neighbors:cutoffneighbors_particletype",
                "PyMatterSim.neighbors.read_neighbors:read_neighbors"],
    "must_reach": ["PyMatterSim.neighbors.calculate_neighbors:Nnearests", "PyMatterSim.neighbors.calculate_neighbors:cutoffneighbors",
                   "PyMatterSim.neighbors.calculate_neighbors:cutoffneighbors_particletype",
                   "PyMatterSim.neighbors.read_neighbors:read_neighbors"],
    "floors": {"nnearest_set": 800, "cutoff_set": 800, "typecut_set": 800, "order": 1500, "symmetry": 100,
               "reader": 300, "eof": 100, "inclusive_boundary": 20, "hostile_files": 30,
               "file_replaced_with_preserved_time_stamp": 8, "hostile_files_with_constant_coordination": 8},
    "rule": ("{gas, perturbed lattice, cluster, hard-core} x {2D,3D} x {orthogonal, triclinic} x masks x N_nn 1..n-1 x "
             "r_cut at random quantiles and exactly on a pair distance (power-of-two boxes) x type-pair cutoff matrices "
             "K 1..3 (symmetric and asymmetric) x 1..4 frames, each file read back frame by frame on one handle with "
             "Nmax below / equal / above the largest coordination number; plus hostile files from an own writer; "
             "non-trivial = n>=4 and every list non-empty for at least one particle; distinct = digest of (positions, cell, mask, parameter)"),
    "assumptions": ["triclinic cells: a particle's list is compared only when its deciding distance is below half the smallest "
                    "perpendicular width (R2)", "distances within 1e-9 of the deciding threshold are ties (R1) except in the "
                    "exact-arithmetic 'inclusive' class", "no coincident particles"],
}


def parse_file(path):
    """independent parser: frames = blocks starting with a line whose first token is 'id'."""
    frames, headers = [], []
    with open(path) as f:
        for line in f:
            t = line.split()
            if not t:
                continue
            if t[0] == "id":
                frames.append([])
                headers.append(t)
            else:
                frames[-1].append(t)
    return headers, frames


def expected_read(header, rows, nparticle, Nmax):
    is_list = "neighborlist" in header
    a = np.zeros((nparticle, Nmax + 1))
    for t in rows:
        i = int(t[0]) - 1
        cn = int(t[1])
        vals = [float(v) for v in t[2:2 + cn]]
        if is_list:
            vals = [v - 1 for v in vals]
        k = min(cn, Nmax)
        a[i, 0] = k
        a[i, 1:1 + k] = vals[:k]
    mx = int(a[:, 0].max())
    if mx < Nmax:
        a = a[:, :mx + 1]
    if is_list:
        a = a.astype(np.int32)
    return a


def read_back(ctx, path, nparticles, key, info, Nmaxes):
    """read the whole file frame after frame on ONE handle for each Nmax; compare with the parse."""
    from PyMatterSim.neighbors.read_neighbors import read_neighbors
    headers, frames = parse_file(path)
    for Nmax in Nmaxes:
        held = []          # the caller keeps every frame's array (as Dynamics does); each must still be what it was when all are read
        with open(path) as f:
            for k, (h, rows) in enumerate(zip(headers, frames)):
                ok, got = ctx.call(key + "/read", read_neighbors, f, nparticles[k], Nmax,
                                   data=lambda: {**info(), "Nmax": Nmax, "frame": k})
                if not ok:
                    break
                exp = expected_read(h, rows, nparticles[k], Nmax)
                got = np.asarray(got)
                good = got.shape == exp.shape and np.array_equal(got, exp)
                if "neighborlist" in h:
                    good = good and np.issubdtype(got.dtype, np.integer)
                ctx.check("reader", good, key + "/read/" + ("truncated" if exp[:, 0].max() >= Nmax else "full"),
                          lambda: f"frame {k} Nmax={Nmax}: shape {got.shape} dtype {got.dtype} vs expected {exp.shape}; "
                                  f"first differing row {_first_diff(got, exp)}", lambda: {**info(), "Nmax": Nmax, "frame": k})
                if good:
                    held.append((k, got, exp))
            else:
                rest = f.read()
                ctx.check("eof", rest.strip() == "", key + "/read/eof",
                          f"after the last frame {len(rest)} unread characters remain (Nmax={Nmax})", info)
        for k, got, exp in held[:-1]:
            ctx.check("held_arrays", np.array_equal(got, exp), key + "/read/earlier_frame_changed",
                      lambda: f"the array returned for frame {k} (Nmax={Nmax}) changed while later frames were read", lambda: {**info(), "Nmax": Nmax, "frame": k})
    return headers, frames


def _first_diff(got, exp):
    if got.shape != exp.shape:
        return "shape"
    r = np.nonzero((got != exp).any(axis=1))[0]
    if len(r) == 0:
        return None
    return {"row": int(r[0]), "got": got[r[0]].tolist(), "expected": exp[r[0]].tolist()}


def lists_of(rows, n):
    out = [None] * n
    for t in rows:
        i = int(t[0]) - 1
        cn = int(t[1])
        out[i] = ([int(v) - 1 for v in t[2:]], cn)
    return out


def structural(ctx, rows, n, key, info):
    """ids once, in order; cn == number listed; no self; no duplicates; valid ids"""
    ids = [int(t[0]) for t in rows]
    good = ids == list(range(1, n + 1))
    msg = "" if good else f"row ids {ids[:8]}.. not 1..{n} in order;"
    for t in rows:
        i = int(t[0]) - 1
        lst = [int(v) - 1 for v in t[2:]]
        if int(t[1]) != len(lst):
            good = False
            msg += f" row {i + 1}: cn {t[1]} but {len(lst)} listed;"
        if i in lst:
            good = False
            msg += f" row {i + 1} lists itself;"
        if len(set(lst)) != len(lst) or any(v < 0 or v >= n for v in lst):
            good = False
            msg += f" row {i + 1}: duplicate / invalid ids;"
    ctx.check("order", good, key + "/structure", msg[:400], info)
    return good


def check_sets(ctx, monitor, lists, dist, thresh_of, n, key, info, ragree, exact=False, sort_tol=1e-9):
    """lists[i] = (ids, cn); thresh_of(i) -> ('rank', N) or ('cut', array of cutoffs per j)."""
    scale = float(np.nanmax(dist[np.isfinite(dist)]))          # relative to the configuration itself (R10: no absolute floor, lengths come in any unit)
    tol = 0.0 if exact else 1e-9 * scale
    for i in range(n):
        lst, _cn = lists[i]
        di = dist[i].copy()
        di[i] = np.inf
        kind, par = thresh_of(i)
        others = np.array([j for j in range(n) if j != i])
        if kind == "rank":
            N = par
            dN = np.sort(di[others])[N - 1]
            if dN >= ragree:
                ctx.skip(monitor)
                continue
            must = set(others[di[others] < dN - tol])
            may = set(others[di[others] <= dN + tol])
            good = len(lst) == N and must <= set(lst) <= may
        else:
            cut = par
            if np.max(cut) >= ragree:
                ctx.skip(monitor)
                continue
            must = set(others[di[others] <= cut[others] - tol]) if not exact else set(others[di[others] <= cut[others]])
            may = set(others[di[others] <= cut[others] + tol])
            good = must <= set(lst) <= may
        ctx.check(monitor, good, key + "/set", lambda: f"particle {i + 1}: listed {sorted(v + 1 for v in lst)}, must contain "
                  f"{sorted(int(v) + 1 for v in must)}, may contain {sorted(int(v) + 1 for v in may)}", info)
        if good and len(lst) > 1:
            dl = di[lst]
            ctx.check("order", bool(np.all(np.diff(dl) >= -sort_tol * scale)), key + "/sorted",
                      lambda: f"particle {i + 1}: neighbours not in increasing distance: {dl.tolist()}", info)


def one_case(ctx, rng, wd, which, inclusive=False, force_N=None):
    from PyMatterSim.neighbors import calculate_neighbors as cn
    K = int(rng.integers(1, 4)) if which == "typecut" else int(rng.integers(1, 3))
    frames = int(rng.choice([1, 1, 2, 4]))
    d = int(rng.choice([2, 3]))
    if inclusive:
        cell = gc.make_cell(rng, d, "ortho", pow2=True, origin_kind="zero")
        cell["H"] = cell["H"] * 4.0
        cell["L"] = cell["L"] * 4.0
        L = np.diag(cell["H"])
        N = int(rng.integers(6, 24))
        pos = np.round(rng.random((N, d)) * L * 64) / 64.0
        pos = np.unique(pos, axis=0)
        rc = float(rng.choice([0.75, 1.0, 1.5, 2.5]))
        rc = min(rc, L.min() / 4)
        extra = pos[: max(2, len(pos) // 3)].copy()
        ax = rng.integers(0, d, size=len(extra))
        extra[np.arange(len(extra)), ax] += rc
        extra %= L
        pos = np.unique(np.vstack([pos, extra]), axis=0)
        pos = pos[rng.permutation(len(pos))]
        types = gc.make_types(rng, len(pos), K)
        snaps = gc.snapshots_from([gc.snapshot_from(cell, None, types, 0, positions=pos) for _ in range(1)])
        inf = {"d": d, "N": len(pos), "cell": "ortho-pow2", "pos": "grid"}
        ppp = np.ones(d, dtype=int)
        frames = 1
    else:
        if force_N:
            frames = 1
        snaps, inf, cell = gc.static_system(rng, d=d, K=K, N=force_N, frames=frames, nmin=max(3, K + 1), nmax=50 if not ctx.thorough else 90, vary_tilt=True, big=True, vary_box=True,
                                            poskind=("droplets" if rng.random() < 0.5 else "gas") if force_N else (None if rng.random() < 0.8 else "droplets"))
        if rng.random() < 0.12 and not force_N:
            snaps, cell, inf = gc.rescale_units(snaps, cell, inf, float(rng.choice([1e-9, 1e-10, 1e5])))     # another unit of length (R10)
        ppp = gc.random_mask(rng, d)
        gc.unwrap_in_place(rng, snaps.snapshots, [s_.hmatrix for s_ in snaps.snapshots], ppp)       # unwrapped coordinates
        types = snaps.snapshots[0].particle_type
    n = inf["N"]
    H = cell["H"]
    Hs = [s.hmatrix for s in snaps.snapshots]         # a sheared trajectory has an own cell matrix per frame
    ragree = np.inf if geom.is_orthogonal(H) else min(geom.agreement_radius(Hf, ppp) for Hf in Hs)
    tables = [geom.pair_table(s.positions, Hf, ppp)[1] for s, Hf in zip(snaps.snapshots, Hs)]
    dmin = min(float(np.min(t + np.eye(n) * 1e9)) for t in tables)
    if dmin < 1e-6 * float(np.abs(H).max()) / 10.0:      # relative to the cell: lengths come in any unit
        return
    fn = os.path.join(wd, "nl.dat")
    info0 = {"d": d, "N": n, "cell": inf["cell"], "pos": inf["pos"], "frames": frames, "ppp": ppp, "H": Hs if not inclusive else H, "types": types,
             "positions": [s.positions for s in snaps.snapshots] if n <= 30 else "omitted(N>30)"}
    nparts = [n] * frames
    if which == "nnearest":
        r = rng.random()
        Nn = n - 1 if r < 0.15 else (1 if r < 0.25 else int(rng.integers(1, n)))
        info = lambda: {**info0, "N_nn": Nn}  # noqa: E731
        key = "Nnearests" + ("/N==nparticle-1" if Nn == n - 1 else "")
        if rng.random() < 0.3 and n >= 4 and not force_N:
            # history: the same trajectory analysed immediately before with ONE argument changed (other N, or other periodicity mask)
            if rng.random() < 0.5:
                ctx.call(key + "/prior_call", cn.Nnearests, snaps, Nn - 1 if Nn > 1 else Nn + 1, ppp, fn, data=info)
            else:
                ctx.call(key + "/prior_call", cn.Nnearests, snaps, Nn, 1 - ppp, fn, data=info)
            ctx.count("prior_call_one_argument_changed")
        ok, _ = ctx.call(key, cn.Nnearests, snaps, Nn, ppp, fn, data=info)
        ctx.case(f"nnearest/{d}D/{inf['cell']}", snaps.snapshots[0].positions, H, ppp, Nn, nontrivial=n >= 4,
                 sample={"kind": "Nnearests", "N_nn": Nn, "n": n, "d": d, "cell": inf["cell"], "ppp": ppp})
        if not ok:
            return
        headers, fr = parse_file(fn)
        if not ctx.check("order", len(fr) == frames, key + "/framecount", f"{len(fr)} frames written for {frames}", info):
            return
        for k, rows in enumerate(fr):
            if not structural(ctx, rows, n, key, info):
                continue
            check_sets(ctx, "nnearest_set", lists_of(rows, n), tables[k], lambda i: ("rank", Nn), n, key, info, ragree)
        maxcn = Nn
    else:
        if which == "cutoff":
            flat = np.sort(tables[0][np.triu_indices(n, 1)])
            if inclusive:
                rcv = rc
            else:
                qn = rng.uniform(0.02, 0.5)
                a, b = flat[int(qn * (len(flat) - 1))], flat[min(len(flat) - 1, int(qn * (len(flat) - 1)) + 1)]
                rcv = 0.5 * (a + b)
                if rng.random() < 0.3:
                    rcv = b * (1.0 - 1e-5)         # a cut-off a hair (1e-5 relative, far above round-off) BELOW a pair distance: that pair is outside
                    ctx.count("cutoff_just_below_a_pair_distance")
                if np.isfinite(ragree):
                    rcv = min(rcv, 0.95 * ragree)
            info = lambda: {**info0, "r_cut": rcv}  # noqa: E731
            key = "cutoffneighbors" + ("/inclusive" if inclusive else "")
            if rng.random() < 0.3 and not force_N:
                if rng.random() < 0.5:
                    ctx.call(key + "/prior_call", cn.cutoffneighbors, snaps, rcv * 1.25, ppp, fn, data=info)
                else:
                    ctx.call(key + "/prior_call", cn.cutoffneighbors, snaps, rcv, 1 - ppp, fn, data=info)
                ctx.count("prior_call_one_argument_changed")
            ok, _ = ctx.call(key, cn.cutoffneighbors, snaps, rcv, ppp, fn, data=info)
            cutm = None
        else:
            Kr = len(np.unique(types))
            flat = np.sort(tables[0][np.triu_indices(n, 1)])
            base = flat[int(rng.uniform(0.05, 0.4) * (len(flat) - 1))]
            cutm = base * rng.uniform(0.6, 1.4, size=(Kr, Kr))
            if rng.random() < 0.5:
                cutm = 0.5 * (cutm + cutm.T)
            if rng.random() < 0.3:
                cutm = np.full((Kr, Kr), base * (1.0 - 1e-5))      # every cut-off a hair below a pair distance
                ctx.count("cutoff_just_below_a_pair_distance")
            if inclusive:
                cutm = np.full((Kr, Kr), rc) * rng.choice([1.0, 0.5], size=(Kr, Kr))
            if np.isfinite(ragree):
                cutm = np.minimum(cutm, 0.95 * ragree)
            # the same table in another representation (R7): Fortran order, read-only, or -- integer-valued cut-offs -- an integer array
            crep = ["c", "fortran", "readonly", "int", "c"][(n + Kr + frames) % 5]
            if crep == "int" and not inclusive and (not np.isfinite(ragree) or ragree > 2.2) and base > 0.8:
                cutm = rng.integers(1, 3, size=(Kr, Kr)).astype(np.int64)
            elif crep == "fortran":
                cutm = np.asfortranarray(cutm)
            elif crep == "readonly":
                cutm = cutm.copy()
                cutm.setflags(write=False)
            ctx.count("cutoff_table_rep_" + crep)
            info = lambda: {**info0, "r_cut_matrix": cutm}  # noqa: E731
            key = "cutoffneighbors_particletype" + ("/inclusive" if inclusive else "")
            if rng.random() < 0.3 and not force_N:
                ctx.call(key + "/prior_call", cn.cutoffneighbors_particletype, snaps, (cutm.T * 1.1).copy(), ppp, fn, data=info)
                ctx.count("prior_call_one_argument_changed")
            ok, _ = ctx.call(key, cn.cutoffneighbors_particletype, snaps, cutm, ppp, fn, data=info)
        ctx.case(f"{which}/{d}D/{inf['cell']}" + ("/inclusive" if inclusive else ""), snaps.snapshots[0].positions, H, ppp,
                 rcv if which == "cutoff" else cutm, nontrivial=n >= 4,
                 sample={"kind": which, "n": n, "d": d, "cell": inf["cell"], "ppp": ppp,
                         "r_cut": rcv if which == "cutoff" else cutm})
        if not ok:
            return
        headers, fr = parse_file(fn)
        if not ctx.check("order", len(fr) == frames, key + "/framecount", f"{len(fr)} frames written for {frames}", info):
            return
        maxcn = 0
        for k, rows in enumerate(fr):
            if not structural(ctx, rows, n, key, info):
                continue
            lists = lists_of(rows, n)
            maxcn = max(maxcn, max(len(l[0]) for l in lists))
            if which == "cutoff":
                check_sets(ctx, "cutoff_set", lists, tables[k], lambda i: ("cut", np.full(n, rcv)), n, key, info, ragree, exact=inclusive)
                sym = all((i in lists[j][0]) for i in range(n) for j in lists[i][0])
                ctx.check("symmetry", sym, key + "/symmetry", "global-cutoff relation is not symmetric", info)
            else:
                check_sets(ctx, "typecut_set", lists, tables[k], lambda i: ("cut", cutm[types[i] - 1][types - 1]), n, key, info,
                           ragree, exact=inclusive)
            if inclusive:
                ctx.count("inclusive_boundary")
    Nmaxes = sorted({max(1, maxcn - 2), max(1, maxcn), maxcn + 3, 200})
    read_back(ctx, fn, nparts, key, info, Nmaxes if maxcn > 0 else [5, 200])
    os.remove(fn)


def hostile_file(ctx, rng, wd):
    """own writer: shuffled row order, ragged cn, cn=0 rows, several frames, neighbour list or weights header."""
    n = int(rng.integers(2, 30))
    frames = int(rng.integers(1, 5))
    is_list = rng.random() < 0.6
    fn = os.path.join(wd, "hostile.dat")
    same_cn = int(rng.integers(1, min(n, 9))) if rng.random() < 0.35 else None       # a regular table: the same coordination number in every row (rows still shuffled)
    if same_cn is not None:
        ctx.count("hostile_files_with_constant_coordination")

    def write():
        with open(fn, "w") as f:
            for _ in range(frames):
                f.write("id     cn     neighborlist\n" if is_list else rng.choice(["id   cn   facearealist\n", "id cn edgelengthlist\n"]))
                for i in rng.permutation(n):
                    cn = same_cn if same_cn is not None else int(rng.integers(0, min(n, 9)))
                    if is_list:
                        vals = [str(int(v) + 1) for v in rng.choice(n, size=cn, replace=False)]
                    else:
                        vals = ["%.6f" % v for v in rng.uniform(-2, 5, size=cn)]
                    f.write(" ".join([str(i + 1), str(cn)] + vals) + ("\n" if rng.random() < 0.7 else " \n"))
    if rng.random() < 0.4:
        # history: another file of the same shape lived under this name, was read in full with the same arguments, and was then replaced by
        # the present one with its time stamp preserved (cp -p, restored from a backup): the content decides
        from PyMatterSim.neighbors.read_neighbors import read_neighbors
        write()
        st = os.stat(fn)
        for Nmax in (3, 200):
            with open(fn) as f:
                for _ in range(frames):
                    ctx.call("read_neighbors/prior_file", read_neighbors, f, n, Nmax, data={"n": n, "frames": frames})
        write()
        os.utime(fn, ns=(st.st_atime_ns, st.st_mtime_ns))
        ctx.count("file_replaced_with_preserved_time_stamp")
    else:
        write()
    info = lambda: {"file_text": open(fn).read()[:4000], "n": n, "frames": frames, "is_list": is_list}  # noqa: E731
    ctx.case("hostile/" + ("list" if is_list else "weights"), open(fn).read(), nontrivial=n >= 3)
    ctx.count("hostile_files")
    read_back(ctx, fn, [n] * frames, "read_neighbors/" + ("list" if is_list else "weights"), info, [1, 3, 8, 9, 200])
    os.remove(fn)


def run(ctx):
    from ..harness import fresh_dir, drop_dir
    wd = fresh_dir("c05")
    if ctx.shard == 0 or ctx.thorough:
        # one system far beyond the usual size per neighbour definition (block-wise / cell-list evaluation boundaries)
        for which in ("nnearest", "cutoff", "typecut"):
            one_case(ctx, ctx.rng(), wd, which, force_N=int(ctx.rng().choice([1100, 1500, 2100])))
            ctx.count("systems_over_1000_particles")
    n = ctx.n(200, 600)
    for i in range(n):
        for which in ("nnearest", "cutoff", "typecut"):
            rng = ctx.rng()
            one_case(ctx, rng, wd, which, inclusive=(which != "nnearest" and i % 5 == 0))
        if i % 3 == 0:
            hostile_file(ctx, ctx.rng(), wd)
        if ctx.out_of_time():
            break
    drop_dir(wd)
