"""C15 — vector-field measures and the longitudinal/transverse split obey their definitions."""
from __future__ import annotations

import os

import numpy as np

from ..gen import config as gc
from ..ref import geom
from .C06 import random_lists, write_nl
from .C14 import ref_corr

SPEC = {
    "quick_procs": 1, "thorough_procs": 16, "timeout_quick": 400, "timeout_thorough": 2400,
    "anchors": ["PyMatterSim.static.vector:participation_ratio", "PyMatterSim.static.vector:local_vector_alignment",
                "PyMatterSim.static.vector:phase_quotient", "PyMatterSim.static.vector:divergence_curl",
                "PyMatterSim.static.vector:vibrability", "PyMatterSim.static.vector:vector_decomposition_sq",
                "PyMatterSim.static.vector:vector_fft_corr"],
    "must_reach": ["PyMatterSim.static.vector:participation_ratio", "PyMatterSim.static.vector:local_vector_alignment",
                   "PyMatterSim.static.vector:phase_quotient", "PyMatterSim.static.vector:divergence_curl",
                   "PyMatterSim.static.vector:vibrability", "PyMatterSim.static.vector:vector_decomposition_sq",
                   "PyMatterSim.static.vector:vector_fft_corr"],
    "floors": {"participation_ratio": 400, "alignment": 1000, "phase_quotient": 150, "divergence": 1000, "curl": 500,
               "linear_field": 100, "vibrability": 300, "transform": 1000, "split_parallel": 400, "split_orthogonal": 300,
               "split_sum": 300, "pythagoras": 1000, "average": 300, "fft_corr": 300, "spectra": 50,
               "spectra_spanning_many_decades": 30, "cell_edges_changing_between_frames": 15},
    "rule": ("fields {uniform, localised on one particle, random, linear u=Ar} x configurations x own neighbour lists x {2D,3D} x "
             "masks x integer wave-vector lists x 1..4 frames; non-trivial = N>=4; distinct = digest of (field, positions, lists, q list)"),
    "assumptions": ["every particle has >= 1 neighbour; neighbour separations below half the smallest perpendicular width",
                    "returned frames are rounded to 1e-8 by the library: Fourier-space identities are checked to 1e-7",
                    "phase quotient: denominator non-zero"],
}


def make_field(rng, kind, pos, d):
    N = len(pos)
    if kind == "uniform":
        return np.tile(rng.normal(size=d), (N, 1))
    if kind == "localised":
        v = np.zeros((N, d))
        v[int(rng.integers(0, N))] = rng.normal(size=d)
        return v
    if kind == "linear":
        A = rng.normal(size=(d, d))
        return pos @ A.T, A
    return rng.normal(size=(N, d))


def case_real_space(ctx, rng, wd):
    from PyMatterSim.static import vector as V
    d = int(rng.choice([2, 3]))
    N = int(rng.integers(4, 40))
    kind = str(rng.choice(["uniform", "localised", "random", "linear"]))
    cellkind = str(rng.choice(["ortho", "ortho", "tri"]))
    cell = gc.make_cell(rng, d, cellkind, lmin=5, lmax=10)
    ppp = np.zeros(d, dtype=int) if kind == "linear" else gc.random_mask(rng, d)
    frac = rng.random((N, d))
    if kind == "linear":
        frac = 0.3 + 0.4 * frac            # compact open cluster
    snap = gc.snapshot_from(cell, frac, np.ones(N, dtype=int))
    gc.unwrap_in_place(rng, [snap], cell["H"], ppp)       # unwrapped coordinates
    pos = snap.positions
    A = None
    fld = make_field(rng, kind, pos, d)
    if kind == "linear":
        fld, A = fld
    # neighbour lists restricted to close pairs (so the minimum image is unambiguous)
    vec, dist, _ = geom.pair_table(pos, cell["H"], ppp)
    ra = geom.agreement_radius(cell["H"], ppp)
    lists = []
    for i in range(N):
        order = [j for j in np.argsort(dist[i]) if j != i and dist[i, j] < 0.95 * ra]
        k = int(rng.integers(1, min(len(order), 7) + 1)) if order else 0
        lists.append([int(j) for j in order[:k]])
    if any(len(l) == 0 for l in lists):
        return
    fn = os.path.join(wd, "nl.dat")
    write_nl(fn, [lists])
    info = lambda: {"kind": kind, "d": d, "N": N, "cell": cellkind, "ppp": ppp, "H": cell["H"], "positions": pos if N <= 14 else "omitted",  # noqa: E731
                    "field": fld if N <= 14 else "omitted", "lists": lists if N <= 14 else "omitted"}
    ctx.case(f"real/{kind}/{d}D/{cellkind}", pos, fld, lists, ppp, nontrivial=True, sample={"kind": kind, "d": d, "N": N, "ppp": ppp})
    # the field in the representation the caller happens to hold it in (R7): C order, Fortran order (a transposed (d, N) table),
    # a strided column block, read-only
    rep = ["c", "fortran", "strided", "readonly", "c"][(N + d + len(kind)) % 5]

    def fresh():
        if rep == "fortran":
            return np.asfortranarray(fld)
        if rep == "strided":
            big = np.zeros((N, 2 * d + 1))
            big[:, 1::2] = fld
            return big[:, 1::2]
        c = fld.copy()
        if rep == "readonly":
            c.setflags(write=False)
        return c
    ctx.count("field_rep_" + rep)
    # participation ratio
    ok, pr = ctx.call("participation_ratio", V.participation_ratio, fresh(), data=info)
    if ok:
        e2 = (fld ** 2).sum(axis=1)
        exp = e2.sum() ** 2 / (N * (e2 ** 2).sum())
        ctx.close("participation_ratio", pr, exp, "participation_ratio/value", rtol=1e-10, what="PR formula", data=info, n=1)
        ctx.check("participation_ratio", 1.0 / N * (1 - 1e-12) <= pr <= 1 + 1e-12, "participation_ratio/bounds", f"PR={pr} outside [1/N,1]", info)
        ok2, pr2 = ctx.call("participation_ratio", V.participation_ratio, fld * float(rng.uniform(0.01, 100)), data=info)
        if ok2:
            ctx.close("participation_ratio", pr2, pr, "participation_ratio/scale_invariance", rtol=1e-10, what="scale invariance", data=info, n=1)
        if kind == "uniform":
            ctx.close("participation_ratio", pr, 1.0, "participation_ratio/uniform", rtol=1e-10, what="uniform field => 1", data=info, n=1)
        if kind == "localised":
            ctx.close("participation_ratio", pr, 1.0 / N, "participation_ratio/localised", rtol=1e-10, what="one-particle field => 1/N", data=info, n=1)
    # alignment, phase quotient
    dots = [np.array([fld[i] @ fld[j] for j in lists[i]]) for i in range(N)]
    ok, al = ctx.call("local_vector_alignment", V.local_vector_alignment, fresh(), fn, data=info)
    if ok:
        ctx.close("alignment", al, np.array([x.mean() for x in dots]), "local_vector_alignment/value", rtol=1e-10, atol=1e-13, what="mean neighbour dot product", data=info)
    den = sum(np.abs(x).sum() for x in dots)
    if den > 1e-12:
        ok, pq = ctx.call("phase_quotient", V.phase_quotient, fresh(), fn, data=info)
        if ok:
            ctx.close("phase_quotient", pq, sum(x.sum() for x in dots) / den, "phase_quotient/value", rtol=1e-10, atol=1e-13, what="phase quotient", data=info, n=1)
            ctx.check("phase_quotient", -1 - 1e-12 <= pq <= 1 + 1e-12, "phase_quotient/bounds", f"phase quotient {pq} outside [-1,1]", info)
    # divergence / curl
    ok, dc = ctx.call("divergence_curl", V.divergence_curl, snap, fresh(), ppp, fn, data=info)
    if ok:
        div = dc if d == 2 else dc[0]
        ediv = np.array([np.mean([vec[i, j] @ (fld[j] - fld[i]) for j in lists[i]]) for i in range(N)])
        ctx.close("divergence", np.asarray(div), ediv, "divergence_curl/divergence", rtol=1e-10, atol=1e-12, what="mean r_ij . u_ij", data=info)
        if d == 3:
            ecurl = np.array([np.mean([np.cross(vec[i, j], fld[j] - fld[i]) for j in lists[i]], axis=0) for i in range(N)])
            ctx.close("curl", np.asarray(dc[1]), ecurl, "divergence_curl/curl", rtol=1e-10, atol=1e-12, what="mean r_ij x u_ij", data=info)
        elif isinstance(dc, tuple):
            ctx.violation("divergence_curl/2D_return", "2D call returned a tuple", info())
        if A is not None:
            closed = np.array([np.mean([(pos[j] - pos[i]) @ A @ (pos[j] - pos[i]) for j in lists[i]]) for i in range(N)])
            ctx.close("linear_field", np.asarray(div), closed, "divergence_curl/linear_field", rtol=1e-9, atol=1e-11, what="u=Ar: mean r^T A r", data=info)
    os.remove(fn)


def case_vibrability(ctx, rng):
    from PyMatterSim.static.vector import vibrability
    N = int(rng.integers(2, 15))
    d = int(rng.choice([2, 3]))
    Q, _ = np.linalg.qr(rng.normal(size=(N * d, N * d)))
    nm = int(rng.integers(1, N * d + 1))
    om = rng.uniform(0.2, 5.0, size=nm)
    if rng.random() < 0.35:
        # a nearly floppy network / a jammed packing close to unjamming: strictly positive frequencies spanning many decades; the soft modes
        # carry the dominant 1/omega^2 weight and are modes like any other
        om = 10.0 ** rng.uniform(-5.0 if rng.random() < 0.5 else -8.0, 1.0, size=nm)
        ctx.count("spectra_spanning_many_decades")
    ev = Q[:, :nm]
    info = lambda: {"N": N, "d": d, "modes": nm}  # noqa: E731
    vf = "vib_out.npy" if rng.random() < 0.3 else ""
    evin = np.asfortranarray(ev) if (N + nm) % 3 == 0 else ev.copy()          # scipy.linalg.eigh hands out Fortran-ordered eigenvectors
    ok, res = ctx.call("vibrability", vibrability, om.copy(), evin, N, vf, data=info)
    if ok:
        ctx.check("vibrability", np.array_equal(np.asarray(evin), ev), "vibrability/input_modified", "the eigenvector matrix was modified", info)
    if ok and vf:
        ctx.check("vibrability", os.path.exists(vf) and np.array_equal(np.load(vf), np.asarray(res)), "vibrability/file", "saved file differs from the returned array", info)
    if vf and os.path.exists(vf):
        os.remove(vf)
    ctx.case(f"vibrability/{d}D", om, ev, nontrivial=True)
    if ok:
        exp = np.zeros(N)
        for k in range(nm):
            exp += (ev[:, k].reshape(N, d) ** 2).sum(axis=1) / om[k] ** 2
        ctx.close("vibrability", res, exp, "vibrability/value", rtol=1e-10, what="eigenvalue-weighted mode sum", data=info)


def case_split(ctx, rng, wd):
    from PyMatterSim.static.vector import vector_decomposition_sq, vector_fft_corr
    d = int(rng.choice([2, 3]))
    N = int(rng.integers(4, 40))
    T = int(rng.choice([1, 2, 3, 4]))
    cell = gc.make_cell(rng, d, "ortho", lmin=4, lmax=9)
    L = np.diag(cell["H"]).copy()
    kind = str(rng.choice(["uniform", "localised", "random", "linear"]))
    frames, fields = [], []
    step = int(rng.choice([1, 50]))
    uneven = T >= 3 and rng.random() < 0.3
    ts = np.cumsum(np.concatenate([[0], rng.integers(1, 5, size=T - 1)])) * step if uneven else step * np.arange(T)
    if uneven and len(set(np.diff(ts).tolist())) == 1:
        ts[-1] += step
    own_cells = T >= 2 and rng.random() < 0.4
    cells = [cell]
    for t in range(1, T):
        # a cell whose edges fluctuate independently from frame to frame (NPT with anisotropic coupling, uniaxial compression): every frame
        # has its own wave vectors q = 2 pi n / L(t), and its own directions q/|q|
        cells.append(gc.make_cell(rng, d, "ortho", lmin=4, lmax=9) if own_cells else cell)
    if own_cells:
        ctx.count("cell_edges_changing_between_frames")
    Ls = [np.diag(c["H"]).copy() for c in cells]
    for t in range(T):
        s = gc.snapshot_from(cells[t], rng.random((N, d)), np.ones(N, dtype=int), int(ts[t]))
        f = make_field(rng, kind, s.positions, d)
        if kind == "linear":
            f = f[0]
        frames.append(s)
        fields.append(f)
    snaps = gc.snapshots_from(frames)
    M = int(rng.integers(2, 14))
    nv = rng.integers(-4, 5, size=(M, d))
    nv = np.unique(nv[(nv != 0).any(axis=1)], axis=0)
    nv = nv[rng.permutation(len(nv))]
    info = lambda: {"kind": kind, "d": d, "N": N, "T": T, "L": L, "qvectors": nv, "timesteps": ts,  # noqa: E731
                    "positions": [s.positions for s in frames] if N <= 12 else "omitted", "fields": fields if N <= 12 else "omitted"}
    ctx.case(f"split/{kind}/{d}D/T{T}", frames[0].positions, fields[0], nv, L, nontrivial=True, sample={"kind": kind, "d": d, "N": N, "T": T, "n_q": len(nv)})
    Fs, aves, qhs = [], [], []
    for t in range(T):
        q = 2 * np.pi * nv / Ls[t][None, :]
        qn = np.linalg.norm(q, axis=1)
        qh = q / qn[:, None]
        qhs.append(qh)
        key = "vector_decomposition_sq"
        out = os.path.join(wd, "vd") if rng.random() < 0.2 else ""
        ok, res = ctx.call(key, vector_decomposition_sq, frames[t], nv.copy(), fields[t].copy(), out, data=info)
        F = (np.exp(-1j * (frames[t].positions @ q.T))[:, :, None] * fields[t][:, None, :]).sum(axis=0) / np.sqrt(N)
        Fs.append(F)
        if not ok:
            return
        per, ave = res
        aves.append(ave)
        need = [f"q{a}" for a in range(d)] + ["q", "Sq"] + [f"FFT{a}" for a in range(d)] + [f"T_FFT{a}" for a in range(d)] + ["Sq_T"] + [f"L_FFT{a}" for a in range(d)] + ["Sq_L"]
        if not ctx.check("transform", all(c in per.columns for c in need) and len(per) == len(nv), key + "/layout", lambda: f"columns {list(per.columns)}", info):
            return
        sc = max(1.0, float(np.abs(F).max()))
        Fo = per[[f"FFT{a}" for a in range(d)]].values.astype(complex)
        Lo = per[[f"L_FFT{a}" for a in range(d)]].values.astype(complex)
        To = per[[f"T_FFT{a}" for a in range(d)]].values.astype(complex)
        ctx.close("transform", Fo, F, key + "/transform", rtol=1e-9, atol=2e-8, scale=sc, what="F(q) = sum u exp(-iq.r)/sqrt(N)", data=info)
        tol = 1e-7 * sc
        # longitudinal part parallel to q: L = (qhat . L) qhat
        par = (Lo * qh).sum(axis=1)[:, None] * qh
        ctx.check("split_parallel", np.abs(Lo - par).max() <= tol, key + "/L_parallel_q", lambda: f"longitudinal part not parallel to q (dev {np.abs(Lo - par).max():.3g})", info)
        ctx.check("split_orthogonal", np.abs((To * qh).sum(axis=1)).max() <= tol, key + "/T_orthogonal_q", lambda: f"q.T = {np.abs((To * qh).sum(axis=1)).max():.3g}", info)
        ctx.check("split_sum", np.abs(Lo + To - Fo).max() <= tol, key + "/L_plus_T", lambda: f"L+T differs from the transform by {np.abs(Lo + To - Fo).max():.3g}", info)
        ctx.close("split_parallel", Lo, (F * qh).sum(axis=1)[:, None] * qh, key + "/L_value", rtol=1e-7, atol=3e-8, scale=sc, what="L = (qhat.F) qhat", data=info)
        S, ST, SL = per["Sq"].values, per["Sq_T"].values, per["Sq_L"].values
        ctx.check("pythagoras", np.abs(S - ST - SL).max() <= 1e-7 * max(1.0, S.max()), key + "/S_eq_SL_plus_ST", lambda: f"S - S_L - S_T = {np.abs(S - ST - SL).max():.3g}", info)
        ctx.close("pythagoras", S, (np.abs(F) ** 2).sum(axis=1), key + "/S_value", rtol=1e-9, atol=1e-7, scale=max(1.0, S.max()), what="S = |F|^2", data=info)
        gaps = np.diff(np.sort(qn))
        if not np.any((gaps > 1e-9) & (gaps < 1e-6)):
            uq = np.unique(np.round(qn, 8))
            exp = np.array([[c[np.abs(qn - v) < 5e-7].mean() for c in (S, ST, SL)] for v in uq])
            if ctx.check("average", list(ave.columns) == ["q", "Sq", "Sq_T", "Sq_L"] and len(ave) == len(uq), key + "/average_layout", lambda: f"{list(ave.columns)} rows {len(ave)}", info):
                ctx.close("average", ave[["Sq", "Sq_T", "Sq_L"]].values, exp, key + "/average", rtol=1e-9, atol=1e-8, scale=max(1.0, S.max()), what="|q| averages", data=info)
        if out:
            import pandas as pd
            back = pd.read_csv(out + ".csv")
            ctx.check("average", back.shape == ave.shape and np.allclose(back.values, ave.values, rtol=0, atol=0.6e-8), key + "/csv", "CSV differs from returned average", info)
            os.remove(out + ".csv")
    # correlation variant
    if T >= 2:
        outp = os.path.join(wd, "vf")
        dt = float(rng.choice([0.002, 1.0]))
        ok, alld = ctx.call("vector_fft_corr", vector_fft_corr, snaps, nv.copy(), np.array(fields).copy(), dt, outp, data=info)
        if not ok:
            return
        Fs = np.array(Fs)                                   # (T, M, d)
        qha = np.array(qhs)                                 # (T, M, d): each frame's own directions
        Lp = (Fs * qha).sum(axis=2)[:, :, None] * qha
        parts = {"FFT": Fs, "T_FFT": Fs - Lp, "L_FFT": Lp}
        for name, ser in parts.items():
            df = alld.get(name)
            if df is None:
                ctx.violation("vector_fft_corr/missing", f"no entry {name}", info())
                continue
            arr = df.values
            if not ctx.check("fft_corr", arr.shape == (len(nv), d + 1 + T), "vector_fft_corr/layout", lambda: f"{name}: shape {arr.shape}, expected {(len(nv), d + 1 + T)}", info):
                continue
            for m in range(len(nv)):
                series = ser[:, m, :]
                if np.abs(series[0]).max() < 1e-6 * max(1.0, np.abs(Fs).max()):
                    ctx.skip("fft_corr")
                    continue
                _t, cref, _lin = ref_corr(series, ts, dt)
                got = arr[m, d + 1:].astype(complex).real
                # inputs to the library's correlation were rounded to 1e-8: propagate
                tol = 4e-8 * max(1.0, np.abs(series).max()) * np.sqrt(d) / max(np.real(np.sum(series[0] * np.conj(series[0]))), 1e-30) * max(1.0, np.abs(series).max()) + 1e-7
                ctx.check("fft_corr", np.abs(got - cref).max() <= tol * max(1.0, np.abs(cref).max()), f"vector_fft_corr/{name}",
                          lambda: f"{name} q#{m}: time correlation {got.tolist()} vs reference {cref.tolist()}", info)
        try:
            import pandas as pd
            sp = pd.read_csv(outp + ".spectra.csv")
            ctx.check("spectra", list(sp.columns) == ["q", "Sq", "Sq_T", "Sq_L"], "vector_fft_corr/spectra", "spectra file layout", info)
            if len({len(a) for a in aves}) == 1 and len(sp) == len(aves[0]):
                # the averaged spectra are the frame mean of the per-frame |q| tables (as returned by the single-frame routine on each frame)
                mean = np.mean([a[["q", "Sq", "Sq_T", "Sq_L"]].values for a in aves], axis=0)
                ctx.check("spectra", bool(np.all(np.abs(sp.values - mean) <= 0.6e-8 + 1e-9 * np.abs(mean))), "vector_fft_corr/spectra_values",
                          lambda: f"spectra file differs from the frame mean of the per-frame tables by {np.abs(sp.values - mean).max():.3g}", info)
        except FileNotFoundError:
            ctx.violation("vector_fft_corr/spectra_file", "no spectra file written", info())
        for f in os.listdir(wd):
            if f.startswith("vf"):
                os.remove(os.path.join(wd, f))
    # history: the caller moves the particles of the SAME snapshot object in place (the only way to update a frozen record) and
    # decomposes again with the same wave vectors and box: the transform must belong to the configuration the object holds now
    if frames[0].positions.flags.writeable and rng.random() < 0.5:
        newpos = cell["origin"] + rng.random((N, d)) * Ls[0]
        frames[0].positions[...] = newpos
        ok, res = ctx.call("vector_decomposition_sq/updated_in_place", vector_decomposition_sq, frames[0], nv.copy(), fields[0].copy(), "", data=info)
        if ok:
            q = 2 * np.pi * nv / Ls[0][None, :]
            Fu = (np.exp(-1j * (newpos @ q.T))[:, :, None] * fields[0][:, None, :]).sum(axis=0) / np.sqrt(N)
            Fo = res[0][[f"FFT{a}" for a in range(d)]].values.astype(complex)
            ctx.close("updated_in_place", Fo, Fu, "vector_decomposition_sq/updated_in_place", rtol=1e-9, atol=2e-8, scale=max(1.0, float(np.abs(Fu).max())),
                      what="transform after the snapshot's positions were updated in place", data=info)


def run(ctx):
    from ..harness import fresh_dir, drop_dir
    wd = fresh_dir("c15")
    n = ctx.n(200, 600)
    for _ in range(n):
        case_real_space(ctx, ctx.rng(), wd)
        case_vibrability(ctx, ctx.rng())
        case_split(ctx, ctx.rng(), wd)
        if ctx.out_of_time():
            break
    drop_dir(wd)
