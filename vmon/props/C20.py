"""C20 — Voronoi neighbour output is a consistent tessellation in the library format."""
from __future__ import annotations

import os
from collections import Counter

import numpy as np

from ..gen import config as gc
from ..ref import voronoi as rv
from .C05 import parse_file, expected_read

SPEC = {
    "quick_procs": 2, "thorough_procs": 16, "timeout_quick": 500, "timeout_thorough": 3000,
    "anchors": ["PyMatterSim.neighbors.freud_neighbors:convert_configuration", "PyMatterSim.neighbors.freud_neighbors:cal_neighbors",
                "PyMatterSim.neighbors.freud_neighbors:VolumeMatrix", "PyMatterSim.neighbors.read_neighbors:read_neighbors"],
    "must_reach": ["PyMatterSim.neighbors.freud_neighbors:convert_configuration", "PyMatterSim.neighbors.freud_neighbors:cal_neighbors",
                   "PyMatterSim.neighbors.freud_neighbors:VolumeMatrix", "PyMatterSim.neighbors.read_neighbors:read_neighbors"],
    "floors": {"structure": 300, "symmetry": 2000, "weights_positive": 2000, "volume_sum": 100, "oracle_neighbors": 2000,
               "oracle_weights": 2000, "oracle_volumes": 2000, "reader": 200, "eof": 60,
               "vm_frame_selection": 20, "vm_row_sums": 20, "vm_oracle": 20, "vm_saved": 8,
               "box_drifting_slowly_between_frames": 8, "particle_number_changing_between_frames": 5, "held_arrays": 100,
               "volume_matrix_with_a_step_of_a_third_of_the_spacing": 3, "systems_over_65536_particles": 1, "volume_matrix_of_a_large_configuration_with_a_cavity": 1},
    "insitu": ("read_neighbors",),
    "rule": ("{2D,3D} x N 8..80 (gas / hard-core / perturbed lattice, general position) x orthogonal boxes with unequal edges x origins "
             "{0, negative, large, asymmetric, centred, zero-sum-but-not-centred} x 1..3 frames (box and N constant or box varying per "
             "frame) -> cal_neighbors files parsed independently, compared with a Qhull tessellation of explicit periodic images, read "
             "back through read_neighbors; VolumeMatrix for every requested frame index, both transform modes, with and without an "
             "output file; non-trivial = N>=8 and the oracle tessellation is bounded; distinct = digest of (positions, bounds)"),
    "assumptions": ["faces whose weight is below 1e-3 of the frame's median weight are ties (the tessellation library drops or keeps "
                    "them independently per cell; Qhull keeps them): they may be present on one side / in one implementation only",
                    "the tessellation library stores coordinates in single precision: oracle volumes and weights are compared at "
                    "2e-5 relative to the largest value in the frame plus the printed precision (1e-6)",
                    "VolumeMatrix with transform_matrix=True inverts a numerically singular matrix; only frame selection, shape, "
                    "finiteness-independent repeatability and the saved file are claimed for it"],
}

SLIVER = 1e-3          # faces below this fraction of the frame's median weight are numerically degenerate: ties
ONE_SIDED_MAX = 0.1    # a face below this fraction of the median weight present in one implementation only is a tie w.r.t. the oracle
MAX_ONE_SIDED_PER_FRAME = 2   # the known one-sided-face artefact is isolated; more pairs than this in one frame is something else


def parse_overall(path):
    with open(path) as f:
        lines = [l.split() for l in f if l.strip()]
    return lines[0], lines[1:]


def make_traj(rng, d, N, frames, thorough=False, poskind=None, independent_frames=False):
    """orthogonal box, any origin; returns (Snapshots, info)"""
    SingleSnapshot, Snapshots = gc.records()
    okind = str(rng.choice(["zero", "neg", "large", "asym", "centred", "zerosum", "hoomd"]))
    vary_box = frames > 1 and rng.random() < 0.4
    # a box that changes a little from frame to frame (NPT drift, slow compression: a few 1e-6 relative per frame): every frame is
    # tessellated in ITS box -- "almost the box of the previous frame" is another box
    drift = float(rng.uniform(3e-6, 9e-6)) * float(rng.choice([-1, 1])) if (frames > 1 and not vary_box and rng.random() < 0.5) else 0.0
    poskind = poskind or str(rng.choice(["gas", "gas", "hardcore", "lattice"]))
    L0 = rng.uniform(3.0, 12.0, size=d)
    if rng.random() < 0.15:
        L0[:] = L0[0]
    f0 = gc.make_frac(rng, d, N, poskind)
    N = len(f0)
    # the number of particles changing from frame to frame (grand-canonical runs, a dumped group that grows): every frame lists ITS particles
    vary_n = frames > 1 and not independent_frames and rng.random() < 0.25
    snaps = []
    for t in range(frames):
        L = L0 * (rng.uniform(0.8, 1.25) if (vary_box and t) else 1.0) * (1.0 + drift * t)
        if okind == "zero":
            lo = np.zeros(d)
        elif okind == "neg":
            lo = -rng.uniform(0.1, 1.0, size=d) * L
        elif okind == "large":
            lo = rng.uniform(50, 300, size=d) * rng.choice([-1, 1], size=d)
        elif okind in ("centred", "hoomd"):
            lo = -L / 2
        elif okind == "zerosum":
            # bounds sum to zero although the box is not centred on the origin: lo_k + hi_k cancel between axes
            s = rng.uniform(0.3, 2.0)
            lo = -L / 2
            lo[0] += s
            lo[1] -= s
        else:
            lo = rng.uniform(-3, 3, size=d)
        if independent_frames and t:
            f = gc.make_frac(rng, d, N, poskind)          # every frame keeps the minimum distance of its generator
        else:
            f = (f0 + (rng.normal(0, 0.05, f0.shape) if t else 0.0)) % 1.0
        if vary_n and t:
            nt = int(rng.integers(max(8, N // 2), N + N // 2 + 2))
            f = f[:nt] if nt <= len(f) else np.vstack([f, rng.random((nt - len(f), d))])
        Nt = len(f)
        lay = gc.auto_layout(Nt, np.ones(Nt, dtype=int), d)
        gc.LAYOUT_COUNTS[lay] = gc.LAYOUT_COUNTS.get(lay, 0) + 1
        pos = gc.lay_out(lo + f * L, lay, "positions")
        bb = np.column_stack([lo, lo + L])
        if okind == "hoomd":
            # a snapshot as the library's own HOOMD reader builds it: box centred on the origin, `boxbounds` holds the EXTENT of the
            # coordinates (min / max per axis), only `boxlength` carries the cell
            bb = np.column_stack([np.asarray(pos).min(axis=0), np.asarray(pos).max(axis=0)])
        snaps.append(SingleSnapshot(timestep=100 * t, nparticle=Nt, particle_type=gc.lay_out(np.ones(Nt, dtype=int), lay, "types"), positions=pos,
                                    boxlength=L.copy(), boxbounds=bb, realbounds=None, hmatrix=np.diag(L)))
    return Snapshots(nsnapshots=frames, snapshots=snaps), {"d": d, "N": N, "origin": okind, "frames": frames,
                                                            "vary_box": bool(vary_box), "pos": poskind, "drift_per_frame": drift,
                                                            "Ns": [s_.nparticle for s_ in snaps]}


def make_cavity_traj(rng, N0, frames):
    SingleSnapshot, Snapshots = gc.records()
    snaps = []
    N = None
    for t in range(frames):
        while True:
            f = gc.make_frac(rng, 2, N0, "hardcore")
            L = np.array([1.0, float(rng.uniform(1.0, 1.25))]) * np.sqrt(len(f) / 0.7)
            c = rng.uniform(0.3, 0.7, size=2)
            dr = (f - c) * L
            keep = np.linalg.norm(dr, axis=1) > float(rng.uniform(0.24, 0.32)) * L.min()
            f = f[keep]
            if N is None:
                N = len(f)
            if len(f) >= N:
                f = f[:N]
                break
        lo = rng.uniform(-3, 3, size=2)
        snaps.append(SingleSnapshot(timestep=100 * t, nparticle=N, particle_type=np.ones(N, dtype=int), positions=lo + f * L, boxlength=L.copy(),
                                    boxbounds=np.column_stack([lo, lo + L]), realbounds=None, hmatrix=np.diag(L)))
    return Snapshots(nsnapshots=frames, snapshots=snaps), {"d": 2, "N": N, "origin": "asym", "frames": frames, "vary_box": True, "pos": "hardcore+cavity",
                                                            "drift_per_frame": 0.0}


def _info(snaps, inf):
    small = inf["N"] <= 40
    return {**inf, "boxbounds": [s.boxbounds for s in snaps.snapshots],
            "positions": [s.positions for s in snaps.snapshots] if small else "omitted(N>40)"}


def _multiset_match(a, b, tol):
    """greedy matching of two sorted weight lists; returns (unmatched_a, unmatched_b)"""
    a, b = sorted(a), sorted(b)
    ua, ub = [], []
    i = j = 0
    while i < len(a) and j < len(b):
        if abs(a[i] - b[j]) <= tol:
            i += 1
            j += 1
        elif a[i] < b[j]:
            ua.append(a[i])
            i += 1
        else:
            ub.append(b[j])
            j += 1
    return ua + a[i:], ub + b[j:]


def analyse_frame(ctx, key, k, s, nb, wt, vol, info, use_oracle=True):
    """tessellation invariants of one written frame + comparison with the independent tessellation."""
    N = len(nb)
    L = s.boxlength
    allw = np.array([w for l in wt for w in l])
    med = float(np.median(allw)) if allw.size else 1.0
    thr = SLIVER * med
    t = rv.periodic_voronoi(s.positions - s.boxbounds[:, 0], L) if use_oracle else {"ok": False}
    ref_pair = {}
    if t["ok"]:
        for i in range(N):
            for (j, w, _c, _r) in t["neighbors"][i]:
                ref_pair.setdefault((i, j), []).append(w)
    # --- positivity (a printed 0.000000 of a numerically degenerate face is a tie)
    ctx.skip("weights_positive", int(((allw <= 0) & (allw > -1e-12)).sum()))
    ctx.mon("weights_positive")["comparisons"] += int((allw > 0).sum())
    if (allw < 0).any() or (vol <= 0).any():
        ctx.violation(key + "/positive", f"frame {k}: negative weight or non-positive cell volume", info(), "weights_positive")
    # --- symmetry as multisets per ordered pair
    pair = {}
    for i in range(N):
        for j, w in zip(nb[i], wt[i]):
            pair.setdefault((i, j), []).append(w)
    onesided = []
    for (i, j) in sorted(set(pair) | {(b, a) for (a, b) in pair}):
        if i > j:
            continue
        ws, back = pair.get((i, j), []), pair.get((j, i), [])
        if i == j:
            ctx.count("symmetry")
            continue
        ua, ub = _multiset_match(ws, back, 2e-6 + 1e-9 * med)
        lone = ua + ub
        if not lone:
            ctx.count("symmetry", len(ws))
            continue
        if max(lone) < thr:
            ctx.skip("symmetry", len(lone))      # numerically degenerate faces: ties (R1)
            continue
        # faces listed on one side only.  Known mechanism "one-sided face": the independent tessellation has the face -- same
        # area -- for BOTH cells, the library lists it for one cell only (3-D, isolated: at most two pairs per frame, weights from
        # 1e-3 to 0.4 of the median seen).  Anything else (unequal weights both ways, a face the oracle does not have, many pairs)
        # is an ordinary violation.
        refw = ref_pair.get((i, j), [])
        refb = ref_pair.get((j, i), [])
        wt_tol = 2e-5 * max(float(allw.max()), 1.0) + 1e-6
        confirmed = bool(t["ok"] and (not ua or not ub) and all(any(abs(x - r) <= wt_tol for r in refw) and any(abs(x - r) <= wt_tol for r in refb)
                                                                for x in lone if x >= thr))
        onesided.append((i, j, ws, back, refw, confirmed, [x for x in lone if x >= thr]))
    isolated = len(onesided) <= MAX_ONE_SIDED_PER_FRAME and all(o[5] for o in onesided)
    known_faces = set()
    for (i, j, ws, back, refw, confirmed, big) in onesided:
        sub = "/one-sided-face" if isolated else ""
        if isolated:
            known_faces.update((i, j, round(x, 5)) for x in big)
            known_faces.update((j, i, round(x, 5)) for x in big)
        ctx.check("symmetry", False, key.split("/")[0] + "/symmetry" + sub,
                  lambda: f"frame {k}: pair ({i + 1},{j + 1}) weights {ws} one way, {back} the other (median weight {med:.4g}; "
                          f"independent tessellation has {[round(x, 6) for x in refw]} both ways; {len(onesided)} such pair(s) in the frame)", info)
    # --- volumes
    V = float(np.prod(L))
    ctx.close("volume_sum", vol.sum(), V, key + "/volume_sum", rtol=1e-6, atol=N * 0.5e-6, what=f"frame {k}: sum of cell volumes", data=info, n=1)
    # --- independent tessellation
    if not t["ok"]:
        if use_oracle:
            ctx.skip("oracle_neighbors", N)
        return
    wmax = max(w for l in t["neighbors"] for (_j, w, _c, _r) in l)
    # conditioning: the library stores coordinates in single precision (absolute rounding ~ 4e-7 here).  A second oracle run on
    # coordinates perturbed by 1e-6 measures how much each cell volume / face weight moves under such a perturbation
    # (near-degenerate vertices of perturbed lattices amplify it a hundredfold); ten times that is allowed on top of 2e-5 relative.
    prng = np.random.default_rng(int(abs(float(s.positions.sum())) * 1e6) % (2 ** 32))
    t2 = rv.periodic_voronoi(s.positions - s.boxbounds[:, 0] + prng.uniform(-1e-6, 1e-6, size=s.positions.shape), L)
    vsens = np.abs(t2["volumes"] - t["volumes"]) if t2["ok"] else np.zeros(N)
    vtol = 2e-5 * float(t["volumes"].max()) + 1e-6 + 10 * vsens
    ctx.mon("oracle_volumes")["comparisons"] += N
    badv = np.abs(vol - t["volumes"]) > vtol
    if badv.any():
        i0 = int(np.argmax(badv))
        ctx.violation(key + "/oracle/volumes", f"frame {k}: cell volume of particle {i0 + 1} is {vol[i0]} in the file, {t['volumes'][i0]} in the independent "
                      f"tessellation (allowed {vtol[i0]:.3g}); {int(badv.sum())} cells differ", info(), "oracle_volumes")
    dropped = {}
    for i in range(N):
        mine, theirs, sens = {}, {}, {}
        for j, w in zip(nb[i], wt[i]):
            mine.setdefault(j, []).append(w)
        for (j, w, _c, _r) in t["neighbors"][i]:
            theirs.setdefault(j, []).append(w)
        if t2["ok"]:
            th2 = {}
            for (j, w, _c, _r) in t2["neighbors"][i]:
                th2.setdefault(j, []).append(w)
            for j in theirs:
                a_, b_ = sorted(theirs[j]), sorted(th2.get(j, []))
                sens[j] = max((abs(x - y) for x, y in zip(a_, b_)), default=0.0) if len(a_) == len(b_) else wmax
        bad, small, nmatched = [], 0, 0
        for j in set(mine) | set(theirs):
            wtol = 2e-5 * wmax + 1e-6 + 10 * sens.get(j, 0.0)
            ua, ub = _multiset_match(mine.get(j, []), theirs.get(j, []), wtol)
            nmatched += len(mine.get(j, [])) - len(ua)
            for x in ua:
                if x < ONE_SIDED_MAX * med or (i, j, round(x, 5)) in known_faces:
                    small += 1      # small face kept by one implementation only / the known one-sided face: the symmetry monitor decides
                else:
                    bad.append((j + 1, x))
            for x in ub:
                if x < ONE_SIDED_MAX * med or (i, j, round(x, 5)) in known_faces:
                    small += 1
                elif not badv[i] and not badv[j] and i != j:
                    # a face of the independent tessellation that the file lists for neither... or only the other cell, although both
                    # cell volumes agree with the oracle: decided per frame below (the library omitting a face it has tessellated)
                    dropped.setdefault((min(i, j), max(i, j)), []).append((i, j, x))
                else:
                    bad.append((j + 1, x))
        ctx.skip("oracle_neighbors", small)
        ctx.mon("oracle_weights")["comparisons"] += nmatched
        ctx.check("oracle_neighbors", not bad, key + "/oracle/neighbors",
                  lambda: f"frame {k} particle {i + 1}: faces (neighbour id, weight) without a partner in the independent tessellation: {bad[:6]}; "
                          f"listed {sorted((j + 1, w) for j, w in zip(nb[i], wt[i]))[:20]}", info)
    # faces of the independent tessellation absent from the file for BOTH cells, while both cell volumes agree with the oracle (so the
    # library did tessellate them) and the written relation stays symmetric: the property's clauses all hold, the tessellation library
    # merely omits the face from its neighbour list (same family as the recorded one-sided face; seen in 3-D, isolated).  Not a
    # violation of what C20 states -> counted as a tie when isolated (at most MAX_ONE_SIDED_PER_FRAME pairs in the frame, each dropped
    # on both sides); a frame with more of them, or a face dropped on one side only that the symmetry monitor did not classify, is flagged.
    both = {pr: v for pr, v in dropped.items() if {a for (a, _b, _x) in v} == set(pr)}
    if dropped and len(dropped) <= MAX_ONE_SIDED_PER_FRAME and len(both) == len(dropped):
        ctx.skip("oracle_neighbors", sum(len(v) for v in dropped.values()))
        ctx.count("library_omitted_face_both_sides", len(dropped))
    else:
        for pr, v in dropped.items():
            ctx.check("oracle_neighbors", False, key + "/oracle/neighbors",
                      lambda: f"frame {k}: face(s) {[(a + 1, b + 1, x) for (a, b, x) in v]} of the independent tessellation are missing from the file "
                              f"({len(dropped)} such pairs in the frame)", info)


def files_case(ctx, rng, wd):
    from PyMatterSim.neighbors.freud_neighbors import cal_neighbors
    from PyMatterSim.neighbors.read_neighbors import read_neighbors
    d = int(rng.choice([2, 3]))
    N = int(rng.integers(8, 81 if d == 2 or ctx.thorough else 61))
    frames = int(rng.choice([1, 1, 2, 3, 6]))
    if frames == 6:
        N = min(N, 30)
    snaps, inf = make_traj(rng, d, N, frames, ctx.thorough)
    N = inf["N"]
    if inf["drift_per_frame"]:
        ctx.count("box_drifting_slowly_between_frames")
    info = lambda: _info(snaps, inf)  # noqa: E731
    out = os.path.join(wd, str(rng.choice(["vor", "vor", "glass_T0.45", "traj.atom", "run.2.final"])))      # a prefix is a prefix, dots or not
    key = f"cal_neighbors/{d}D"
    ok, _ = ctx.call(key, cal_neighbors, snaps, out, data=info)
    ctx.case(f"files/{d}D/origin={inf['origin']}" + ("/varybox" if inf["vary_box"] else ""), snaps.snapshots[0].positions,
             snaps.snapshots[0].boxbounds, frames, nontrivial=N >= 8,
             sample={"d": d, "N": N, "frames": frames, "origin": inf["origin"], "bounds0": snaps.snapshots[0].boxbounds})
    if not ok:
        return
    wname = out + (".edgelength.dat" if d == 2 else ".facearea.dat")
    other = out + (".facearea.dat" if d == 2 else ".edgelength.dat")
    good = all(os.path.exists(p) for p in (out + ".neighbor.dat", wname, out + ".overall.dat")) and not os.path.exists(other)
    if not ctx.check("structure", good, key + "/files", "expected <out>.neighbor.dat, weight file for the dimension, <out>.overall.dat", info):
        return
    hn, fn_ = parse_file(out + ".neighbor.dat")
    hw, fw = parse_file(wname)
    ho, rows_o = parse_overall(out + ".overall.dat")
    wword = "edgelengthlist" if d == 2 else "facearealist"
    Ns = inf.get("Ns") or [N] * frames
    if len(set(Ns)) > 1:
        ctx.count("particle_number_changing_between_frames")
    offs = np.concatenate([[0], np.cumsum(Ns)]).astype(int)
    good = (len(fn_) == frames and len(fw) == frames and len(rows_o) == int(sum(Ns)) and ho == ["id", "cn", "area_or_volume"]
            and all(h == ["id", "cn", "neighborlist"] for h in hn) and all(h == ["id", "cn", wword] for h in hw))
    if not ctx.check("structure", good, key + "/layout",
                     lambda: f"frames neighbour {len(fn_)} weights {len(fw)} overall rows {len(rows_o)} (expected {frames} frames of {Ns} particles); "
                             f"headers {hn[:1]} {hw[:1]} {ho}", info):
        return
    for k in range(frames):
        s = snaps.snapshots[k]
        L = s.boxlength
        N = Ns[k]
        rn, rw, ro = fn_[k], fw[k], rows_o[offs[k]:offs[k + 1]]
        ids_ok = ([int(t[0]) for t in rn] == list(range(1, N + 1)) and [int(t[0]) for t in rw] == list(range(1, N + 1))
                  and [int(t[0]) for t in ro] == list(range(1, N + 1)))
        if not ctx.check("structure", ids_ok, key + "/ids", f"frame {k}: rows are not ids 1..{N} in order in all three files", info):
            continue
        cn_ok = all(int(a[1]) == len(a) - 2 == int(b[1]) == len(b) - 2 == int(c[1]) for a, b, c in zip(rn, rw, ro))
        if not ctx.check("structure", cn_ok, key + "/cn",
                         f"frame {k}: coordination number differs between files or from the number of listed neighbours/weights", info):
            continue
        nb = [[int(v) - 1 for v in t[2:]] for t in rn]
        wt = [[float(v) for v in t[2:]] for t in rw]
        vol = np.array([float(t[2]) for t in ro])
        rng_ok = all(0 <= j < N for l in nb for j in l)
        if not ctx.check("structure", rng_ok, key + "/idrange", f"frame {k}: neighbour id outside 1..{N}", info):
            continue
        analyse_frame(ctx, key, k, s, nb, wt, vol, info)
    # --- hand-off to the neighbour-file reader (one handle, frame after frame)
    for path, heads, frs in ((out + ".neighbor.dat", hn, fn_), (wname, hw, fw)):
        maxcn = max(int(t[1]) for rows in frs for t in rows)
        for Nmax in (200, maxcn, max(1, maxcn - 3)):
            held = []
            with open(path) as f:
                okk = True
                for k in range(frames):
                    ok2, got = ctx.call(key + "/read", read_neighbors, f, Ns[k], Nmax, data=info)
                    if not ok2:
                        okk = False
                        break
                    exp = expected_read(heads[k], frs[k], Ns[k], Nmax)
                    got = np.asarray(got)
                    held.append((k, got, exp))
                    ctx.check("reader", got.shape == exp.shape and np.array_equal(got, exp) and
                              (np.issubdtype(got.dtype, np.integer) == ("neighborlist" in heads[k])),
                              key + "/read/" + ("list" if "neighborlist" in heads[k] else "weights"),
                              lambda: f"{os.path.basename(path)} frame {k} Nmax={Nmax}: shape {got.shape} dtype {got.dtype}, expected {exp.shape}", info)
                if okk:
                    ctx.check("eof", f.read().strip() == "", key + "/read/eof", f"{os.path.basename(path)}: data left after the last frame", info)
            # the caller keeps every frame's array (all frames of the weight file read into a list): each must still be what it was
            for k, got, exp in held[:-1]:
                ctx.check("held_arrays", got.shape == exp.shape and np.array_equal(got, exp), key + "/read/earlier_frame_changed",
                          lambda: f"{os.path.basename(path)}: the array returned for frame {k} changed while later frames were read (Nmax={Nmax})", info)
    for p in (out + ".neighbor.dat", wname, out + ".overall.dat"):
        os.remove(p)


def files_huge_case(ctx, rng, wd):
    """one two-dimensional configuration of more than 2^16 particles (pair keys i*N+j beyond 32 bits, more rows than any block size): every
    clause of C20 that needs no second tessellation -- ids, coordination numbers, symmetric relation with equal weights, volume sum,
    hand-off to the neighbour-file reader"""
    from PyMatterSim.neighbors.freud_neighbors import cal_neighbors
    from PyMatterSim.neighbors.read_neighbors import read_neighbors
    SingleSnapshot, Snapshots = gc.records()
    N = int(rng.choice([65700, 66049, 70001]))
    L = np.array([1.0, 1.3]) * np.sqrt(N / 1.3)
    lo = rng.uniform(-5, 5, size=2)
    pos = lo + rng.random((N, 2)) * L
    s = SingleSnapshot(timestep=0, nparticle=N, particle_type=np.ones(N, dtype=int), positions=pos, boxlength=L.copy(),
                       boxbounds=np.column_stack([lo, lo + L]), realbounds=None, hmatrix=np.diag(L))
    snaps = Snapshots(nsnapshots=1, snapshots=[s])
    info = lambda: {"d": 2, "N": N, "boxlength": L, "origin": lo, "positions": "uniform random, omitted"}  # noqa: E731
    out = os.path.join(wd, "huge")
    key = "cal_neighbors/2D"
    ok, _ = ctx.call(key + "/huge", cal_neighbors, snaps, out, data=info)
    ctx.case("files/2D/more_than_65536_particles", pos[:100], L, N, nontrivial=True, sample={"d": 2, "N": N})
    ctx.count("systems_over_65536_particles")
    if not ok:
        return
    hn, fn_ = parse_file(out + ".neighbor.dat")
    hw, fw = parse_file(out + ".edgelength.dat")
    ho, rows_o = parse_overall(out + ".overall.dat")
    good = len(fn_) == 1 and len(fw) == 1 and len(rows_o) == N and len(fn_[0]) == N and len(fw[0]) == N
    if not ctx.check("structure", good, key + "/layout", lambda: f"rows: neighbour {len(fn_[0]) if fn_ else 0} weights {len(fw[0]) if fw else 0} overall {len(rows_o)} for N={N}", info):
        return
    rn, rw = fn_[0], fw[0]
    ids_ok = ([int(t[0]) for t in rn] == list(range(1, N + 1)) and [int(t[0]) for t in rw] == list(range(1, N + 1))
              and [int(t[0]) for t in rows_o] == list(range(1, N + 1)))
    if not ctx.check("structure", ids_ok, key + "/ids", "rows are not ids 1..N in order in all three files", info):
        return
    cn_ok = all(int(a[1]) == len(a) - 2 == int(b[1]) == len(b) - 2 == int(c[1]) for a, b, c in zip(rn, rw, rows_o))
    if not ctx.check("structure", cn_ok, key + "/cn", "coordination number differs between files or from the number of listed neighbours/weights", info):
        return
    nb = [[int(v) - 1 for v in t[2:]] for t in rn]
    wt = [[float(v) for v in t[2:]] for t in rw]
    vol = np.array([float(t[2]) for t in rows_o])
    if not ctx.check("structure", all(0 <= j < N for l in nb for j in l), key + "/idrange", "neighbour id outside 1..N", info):
        return
    analyse_frame(ctx, key, 0, s, nb, wt, vol, info, use_oracle=False)
    for path, heads, frs in ((out + ".neighbor.dat", hn, fn_), (out + ".edgelength.dat", hw, fw)):
        maxcn = max(int(t[1]) for t in frs[0])
        with open(path) as f:
            ok2, got = ctx.call(key + "/read", read_neighbors, f, N, maxcn, data=info)
            if ok2:
                exp = expected_read(heads[0], frs[0], N, maxcn)
                got = np.asarray(got)
                ctx.check("reader", got.shape == exp.shape and np.array_equal(got, exp), key + "/read/huge",
                          lambda: f"{os.path.basename(path)}: shape {got.shape}, expected {exp.shape}", info)
    for p_ in (out + ".neighbor.dat", out + ".edgelength.dat", out + ".overall.dat"):
        os.remove(p_)


def vm_case(ctx, rng, wd, i, big=False):
    from PyMatterSim.neighbors.freud_neighbors import VolumeMatrix
    SingleSnapshot, Snapshots = gc.records()
    d = 2 if rng.random() < 0.6 else 3
    N = int(rng.integers(8, 15 if d == 2 else 12))
    frames = int(rng.choice([1, 2, 3, 4]))
    # hard-core positions: the finite-difference step must stay small against every pair distance
    if big:
        # far beyond the usual size and strongly inhomogeneous: a two-dimensional hard-core configuration of 130-230 particles with a
        # circular cavity (cells at the rim of the cavity have neighbours ACROSS it, many mean spacings away)
        d, frames = 2, 2
        snaps, inf = make_cavity_traj(rng, int(rng.choice([150, 200, 260])), frames)
        ctx.count("volume_matrix_of_a_large_configuration_with_a_cavity")
    else:
        snaps, inf = make_traj(rng, d, N, frames, poskind="hardcore", independent_frames=True)
    N = inf["N"]
    k = int(rng.integers(0, frames))
    if i % 4 == 1 and frames > 1:
        k = frames - 1
    h = float(rng.choice([0.01, 0.01, 0.005, 0.02]))
    coarse = False
    if not big and d == 2 and i % 6 == 4:
        coarse = True
        # a step that is NOT small against the spacing (a dense configuration in small units with the default step, or a deliberately coarse
        # response): the matrix is the central difference with the REQUESTED step, whatever its size
        sp_ = float(np.sqrt(np.prod(snaps.snapshots[k].boxlength) / N))
        h = float(rng.uniform(0.27, 0.34)) * sp_
        i = 2 * (i // 2)            # compare every entry with central differences (same step) of the independent tessellation
        ctx.count("volume_matrix_with_a_step_of_a_third_of_the_spacing")
    info = lambda: {**_info(snaps, inf), "nconfig": k, "deltar": h}  # noqa: E731
    key = f"VolumeMatrix/{'nconfig==0' if k == 0 else 'nconfig>0'}"
    save = i % 3 == 0
    outfile = os.path.join(wd, f"vm{i}") if save else ""
    ok, A = ctx.call(key + ("/raw/outputfile" if save else "/raw"), VolumeMatrix, snaps, d, k, h, False, outfile, data=info)
    ctx.case(f"volume_matrix/{d}D/frames={frames}/nconfig={'0' if k == 0 else '>0'}" + ("/saved" if save else ""),
             snaps.snapshots[k].positions, snaps.snapshots[k].boxbounds, k, h,
             sample={"d": d, "N": N, "frames": frames, "nconfig": k, "deltar": h})
    if not ok:
        return
    A = np.asarray(A)
    if not ctx.check("vm_frame_selection", A.shape == (N, N * d), key + "/shape", f"shape {A.shape}, expected {(N, N * d)}", info):
        return
    s = snaps.snapshots[k]
    one = Snapshots(nsnapshots=1, snapshots=[SingleSnapshot(timestep=s.timestep, nparticle=N, particle_type=s.particle_type.copy(),
                                                            positions=s.positions.copy(), boxlength=s.boxlength.copy(),
                                                            boxbounds=s.boxbounds.copy(), realbounds=None, hmatrix=s.hmatrix.copy())])
    ok1, A1 = ctx.call(key + "/raw/single", VolumeMatrix, one, d, 0, h, False, "", data=info)
    if ok1:
        sc = float(np.abs(A1).max())
        ctx.close("vm_frame_selection", A, A1, key + "/frame", rtol=1e-9, scale=sc,
                  what=f"matrix for nconfig={k} vs the matrix of a one-frame trajectory holding that frame", data=info, n=1)
    sc = float(np.abs(A).max())
    ctx.check("vm_row_sums", bool(np.isfinite(A).all()), key + "/finite", "non-finite entries", info)
    rs = A.reshape(N, N, d).sum(axis=1)
    ctx.close("vm_row_sums", rs, np.zeros_like(rs), key + "/row_sums", atol=1e-10 * max(sc, 1.0), rtol=0.0,
              what="rows do not sum to zero over each displaced coordinate", data=info, n=1)
    # --- oracle: analytic volume gradient of an independent tessellation (FD truncation error of the code ~ 1e-3)
    G, t = rv.volume_gradient(s.positions - s.boxbounds[:, 0], s.boxlength)
    if t["ok"]:
        An = (G / t["volumes"][:, None, None]).reshape(N, N * d)
        sca = float(np.abs(An).max())
        badm = np.abs(A - An) > 2e-2 * sca
        ctx.mon("vm_oracle")["comparisons"] += 1
        if badm.any():
            # the code differentiates numerically: where the tessellation changes topology inside the step (or two particles are
            # within a few steps of each other) its central difference legitimately departs from the derivative.  Those entries are
            # decided by central differences of the ORACLE at the same step.
            p0 = s.positions - s.boxbounds[:, 0]
            still = []
            for c in np.unique(np.nonzero(badm)[1]):
                j, a = divmod(int(c), d)
                p1, p2 = p0.copy(), p0.copy()
                p1[j, a] += h
                p2[j, a] -= h
                col = (rv.periodic_voronoi(p1, s.boxlength)["volumes"] - rv.periodic_voronoi(p2, s.boxlength)["volumes"]) / (2 * h) / t["volumes"]
                for r in np.nonzero(badm[:, c])[0]:
                    if r == j:
                        continue        # self term: defined through the row sum, judged by the row-sum monitor
                    if abs(A[r, c] - col[r]) > 1e-3 * sca:
                        still.append((int(r), int(c), float(A[r, c]), float(col[r]), float(An[r, c])))
                    else:
                        ctx.skip("vm_oracle")
            if still:
                ctx.violation(key + "/oracle", f"volume-response matrix: entries (row, column, returned, central difference of an independent tessellation, "
                              f"analytic derivative) {still[:4]}", info(), "vm_oracle")
        cs = (t["volumes"][:, None] * A).sum(axis=0)
        if not coarse:      # (an O(step^2) identity: the self term is defined through the row sum, not as the difference quotient of the cell itself)
            ctx.close("vm_oracle", cs, np.zeros_like(cs), key + "/volume_conservation", atol=3e-2 * float(np.abs(t["volumes"][:, None] * A).max()), rtol=0.0,
                      what="sum_i V_i A[i, c] (total volume is conserved)", data=info, n=1)
        if d == 2 and i % 2 == 0:
            F = np.zeros((N, N * d))
            p0 = s.positions - s.boxbounds[:, 0]
            for j in range(N):
                for a in range(d):
                    p1, p2 = p0.copy(), p0.copy()
                    p1[j, a] += h
                    p2[j, a] -= h
                    F[:, d * j + a] = (rv.periodic_voronoi(p1, s.boxlength)["volumes"] - rv.periodic_voronoi(p2, s.boxlength)["volumes"]) / (2 * h)
            for r in range(N):
                m = F[r].reshape(N, d).copy()
                m[r] = 0
                F[r, d * r:d * r + d] = -m.sum(axis=0)
            F /= t["volumes"][:, None]
            ctx.close("vm_oracle", A, F, key + "/oracle_fd", rtol=2e-4, scale=float(np.abs(F).max()),
                      what="volume-response matrix vs central differences (same step) of an independent tessellation", data=info, n=1)
    else:
        ctx.skip("vm_oracle")
    if save:
        cands = [outfile + ".npy", outfile]
        p = next((c for c in cands if os.path.exists(c)), None)
        if ctx.check("vm_saved", p is not None, key + "/raw/outputfile/missing", "no file written", info):
            B = np.load(p)
            ctx.check("vm_saved", B.shape == A.shape and np.array_equal(B, A), key + "/raw/outputfile/content",
                      "saved raw matrix differs from the returned one", info)
            os.remove(p)
    # --- history: the caller moves the particles of frame k IN PLACE (same Snapshots object, same frame index, same step) and asks
    # again: the matrix must be the one of the configuration the object holds now (compared with a fresh one-frame object)
    if frames > 1 and s.positions.flags.writeable and i % 3 != 1:
        k2 = (k + 1) % frames
        s2 = snaps.snapshots[k2]
        frac2 = (s2.positions - s2.boxbounds[:, 0]) / s2.boxlength
        if inf["origin"] != "hoomd":
            s.positions[...] = s.boxbounds[:, 0] + frac2 * s.boxlength
            oku, Au = ctx.call(key + "/raw/updated_in_place", VolumeMatrix, snaps, d, k, h, False, "", data=info)
            fresh = Snapshots(nsnapshots=1, snapshots=[SingleSnapshot(timestep=s.timestep, nparticle=N, particle_type=s.particle_type.copy(),
                                                                      positions=s.positions.copy(), boxlength=s.boxlength.copy(),
                                                                      boxbounds=s.boxbounds.copy(), realbounds=None, hmatrix=s.hmatrix.copy())])
            okf, Af = ctx.call(key + "/raw/single", VolumeMatrix, fresh, d, 0, h, False, "", data=info)
            if oku and okf:
                ctx.close("vm_updated_in_place", np.asarray(Au), np.asarray(Af), key + "/updated_in_place", rtol=1e-9, scale=float(np.abs(Af).max()),
                          what="matrix after frame k was updated in place vs the matrix of a fresh object holding the same configuration", data=info, n=1)
            return
    # --- transformed variant: frame selection + saved file only
    if i % 2 == 1:
        outfile2 = os.path.join(wd, f"vmt{i}") if i % 4 == 1 else ""
        try:
            T = VolumeMatrix(snaps, d, k, h, True, outfile2)
            T1 = VolumeMatrix(one, d, 0, h, True, "")
        except np.linalg.LinAlgError:
            ctx.skip("vm_frame_selection")
            return
        except Exception as e:  # noqa: BLE001
            ctx.violation(key + f"/transform/raises:{type(e).__name__}", f"{type(e).__name__}: {e}", info(), "exceptions")
            return
        T = np.asarray(T)
        ctx.check("vm_frame_selection", T.shape == (N * d, N * d), key + "/transform/shape", f"shape {T.shape}", info)
        if np.isfinite(T).all() and np.isfinite(T1).all() and ok1 and np.array_equal(A, A1):
            ctx.check("vm_frame_selection", np.array_equal(T, T1), key + "/transform/frame",
                      "transformed matrix for the requested frame differs from that of a one-frame trajectory holding it", info)
        if outfile2:
            p = next((c for c in (outfile2 + ".npy", outfile2) if os.path.exists(c)), None)
            if ctx.check("vm_saved", p is not None, key + "/transform/outputfile/missing", "no file written", info):
                B = np.load(p)
                ctx.check("vm_saved", B.shape == T.shape and np.array_equal(B, T, equal_nan=True), key + "/transform/outputfile/content",
                          "saved transformed matrix differs from the returned one", info)
                os.remove(p)


def known_input_case(ctx, wd):
    """the archived configurations: the known finding 'one-sided face' (known_findings.json), run on every check so that it is
    re-observed (and reported as KNOWN-FINDING) deterministically, not only when the random workload happens on it; and the
    configuration for which the library omits a face on both sides (a tie: must stay silent, counted)."""
    import json
    from PyMatterSim.neighbors.freud_neighbors import cal_neighbors
    from .. import VERIF_DIR
    SingleSnapshot, Snapshots = gc.records()
    for name in ("C20_one_sided_face.json", "C20_face_omitted_both_sides.json"):
        with open(os.path.join(VERIF_DIR, "known_inputs", name)) as f:
            d = json.load(f)
        L, lo, pos = np.array(d["boxlength"]), np.array(d["origin"]), np.array(d["positions"])
        N = len(pos)
        s = SingleSnapshot(timestep=0, nparticle=N, particle_type=np.ones(N, dtype=int), positions=pos, boxlength=L,
                           boxbounds=np.column_stack([lo, lo + L]), realbounds=None, hmatrix=np.diag(L))
        snaps = Snapshots(nsnapshots=1, snapshots=[s])
        out = os.path.join(wd, "known")
        info = lambda name=name: {"input": "known_inputs/" + name}  # noqa: E731
        ok, _ = ctx.call("cal_neighbors/3D", cal_neighbors, snaps, out, data=info)
        ctx.case("files/3D/archived-known-input", pos, L)
        if not ok:
            continue
        _h, fr = parse_file(out + ".neighbor.dat")
        _h, fw = parse_file(out + ".facearea.dat")
        _h, ro = parse_overall(out + ".overall.dat")
        nb = [[int(v) - 1 for v in t[2:]] for t in fr[0]]
        wt = [[float(v) for v in t[2:]] for t in fw[0]]
        vol = np.array([float(t[2]) for t in ro])
        analyse_frame(ctx, "cal_neighbors/3D", 0, s, nb, wt, vol, info)


def run(ctx):
    from ..harness import fresh_dir, drop_dir
    wd = fresh_dir("c20")
    if ctx.shard == 0:
        known_input_case(ctx, wd)
    if ctx.shard == ctx.nshards - 1:
        vm_case(ctx, ctx.rng(), wd, 2, big=True)
    if ctx.shard == ctx.nshards - 1 or (ctx.thorough and ctx.shard % 4 == 1):
        files_huge_case(ctx, ctx.rng(), wd)
    n = ctx.n(150, 300)
    nv = ctx.n(48, 60)
    for i in range(max(n, nv)):
        if i < n:
            files_case(ctx, ctx.rng(), wd)
        if i < nv:
            vm_case(ctx, ctx.rng(), wd, i)
        if ctx.out_of_time():
            break
    drop_dir(wd)
