"""C08 — tabulated spherical harmonics are the standard Y_lm for all angles."""
from __future__ import annotations

import math

import numpy as np

from ..ref import sph

SPEC = {
    "quick_procs": 1, "thorough_procs": 8, "timeout_quick": 400, "timeout_thorough": 2400,
    "anchors": ["PyMatterSim.utils.spherical_harmonics:SphHarm%d" % l for l in range(1, 11)] +
               ["PyMatterSim.utils.spherical_harmonics:SphHarm_above", "PyMatterSim.utils.spherical_harmonics:sph_harm_l"],
    "must_reach": ["PyMatterSim.utils.spherical_harmonics:SphHarm%d" % l for l in range(1, 11)] +
                  ["PyMatterSim.utils.spherical_harmonics:SphHarm_above", "PyMatterSim.utils.spherical_harmonics:sph_harm_l"],
    "floors": {"table_vs_scipy": 2000, "table_vs_own_grid": 10, "band_limit": 10, "oracle_vs_mpmath": 100,
               "oracle_vs_scipy": 1000, "identities": 1000, "dispatcher": 100, "delegated": 200, "history": 60, "nearby_angles": 500},
    "insitu": ("sph",),
    "rule": ("l=1..10: every table evaluated on the full-circle 64x64 grid (structure + identity with the own recurrence), "
             "on random angles in [0,pi]x(-pi,pi], the poles and phi in {0,+-pi}; l=11..20 delegated branch on random angles "
             "incl. negative phi; dispatcher for every l; a case = one (l, angle set); non-trivial = always (2l+1 complex "
             "entries compared); distinct = digest of (l, angles)"),
    "assumptions": ["each table entry is a branch-free closed form of sin/cos(theta) and exp(i m phi) of total degree < 32 "
                    "(so a 64-point equispaced grid determines it); the reach monitor shows every line of each table executed",
                    "three oracles: scipy.special.sph_harm_y, mpmath.spherharm (30 digits), own Legendre recurrence"],
}


def lebesgue_constant(npts=64, degree=31, fine=4001):
    """operator norm (sup-norm) of trigonometric interpolation of degree <= `degree` from `npts` equispaced nodes."""
    th = 2 * np.pi * np.arange(npts) / npts
    ks = np.arange(-degree, degree + 1)
    A = np.exp(1j * np.outer(th, ks))
    pinv = np.linalg.pinv(A)
    tf = np.linspace(0, 2 * np.pi, fine)
    B = np.exp(1j * np.outer(tf, ks))
    return float(np.abs(B @ pinv).sum(axis=1).max())


def run(ctx):
    from scipy.special import sph_harm_y
    import mpmath
    ok, SH = ctx.call("spherical_harmonics/import", __import__, "PyMatterSim.utils.spherical_harmonics",
                      fromlist=["x"], data={"note": "module import"})
    if not ok:
        ctx.case("import", "import", nontrivial=False)
        return
    eps_tab = 1e-11
    G = 64
    grid = 2 * np.pi * np.arange(G) / G
    Lam = lebesgue_constant(G, 31)
    ctx.extra["lebesgue_constant_64pt"] = Lam
    worst_bound = 0.0
    ls = list(range(1, 11))
    for l in ls:
        if ctx.nshards > 1 and (l % ctx.nshards) != ctx.shard and ctx.tier == "thorough":
            pass  # every shard still does all l (cheap); shards differ in the random angles
        fn = getattr(SH, f"SphHarm{l}", None)
        if fn is None:
            ctx.violation(f"SphHarm{l}/missing", "table function missing")
            continue
        key = f"SphHarm{l}"
        # ---- (1) full-circle grid: structure + identity with own analytic recurrence
        vals = np.zeros((G, G, 2 * l + 1), dtype=complex)
        failed = False
        for i, th in enumerate(grid):
            for j, ph in enumerate(grid):
                ok, v = ctx.call(key, fn, float(th), float(ph), data={"l": l, "theta": th, "phi": ph})
                if not ok or np.shape(v) != (2 * l + 1,):
                    if ok:
                        ctx.violation(key + "/shape", f"returned shape {np.shape(v)}", {"l": l})
                    failed = True
                    break
                vals[i, j] = v
            if failed:
                break
        if failed:
            continue
        TH, PH = np.meshgrid(grid, grid, indexing="ij")
        own = sph.ylm_all(l, TH, PH)
        ctx.case(f"grid/l{l}", l, "grid64", nontrivial=True,
                 sample={"l": l, "grid": "64x64 full circle", "table_at(0.3,0.7)": np.asarray(fn(0.3, 0.7))[:3]})
        e1 = float(np.abs(vals - own).max())
        ctx.mon("table_vs_own_grid")["max_err"] = max(ctx.mon("table_vs_own_grid")["max_err"], e1)
        if not ctx.check("table_vs_own_grid", e1 <= eps_tab, key + "/value",
                         lambda: _describe(vals, own, l, grid), {"l": l}):
            continue
        F = np.fft.fft2(vals, axes=(0, 1)) / (G * G)        # index [ktheta, kphi, m]
        kk = np.fft.fftfreq(G, 1.0 / G).astype(int)
        for mi, m in enumerate(range(-l, l + 1)):
            allowed = (np.abs(kk)[:, None] <= l) & (kk[None, :] == m)
            tot = np.abs(F[:, :, mi]).max()
            outside = np.abs(F[:, :, mi][~allowed]).max()
            ctx.check("band_limit", outside <= 1e-10 * max(tot, 1e-3), key + "/structure",
                      lambda: f"l={l} m={m}: Fourier content {outside:.3g} outside (phi-harmonic {m}, |theta-harmonic|<={l})",
                      {"l": l, "m": m})
        worst_bound = max(worst_bound, Lam * Lam * e1)
        # ---- (2) random angles, poles, special azimuths, vs scipy directly
        rng = ctx.rng(l)
        nr = 2000 if ctx.tier == "quick" else 20000
        th = np.concatenate([np.arccos(rng.uniform(-1, 1, nr)), [0.0, np.pi, np.pi / 2, 1e-9, np.pi - 1e-9, 0.0, np.pi]])
        ph = np.concatenate([rng.uniform(-np.pi, np.pi, nr), [0.0, np.pi, -np.pi + 1e-15, np.pi, 0.0, -3.0, 3.0]])
        ctx.case(f"random/l{l}", l, th, ph, nontrivial=True)
        tab = np.array([fn(float(a), float(b)) for a, b in zip(th, ph)])
        ms = np.arange(-l, l + 1)
        ref = sph_harm_y(l, ms[None, :], th[:, None], ph[:, None])
        ctx.close("table_vs_scipy", tab, ref, key + "/value", rtol=0, atol=eps_tab, what=f"SphHarm{l} vs scipy",
                  data=lambda: {"l": l, "worst": _worst(tab, ref, th, ph, l)}, n=len(th))
        own_r = sph.ylm_all(l, th, ph)
        ctx.close("oracle_vs_scipy", own_r, ref, "oracle/own_vs_scipy", rtol=0, atol=1e-12, what="own recurrence vs scipy", n=len(th))
        # identities on the repository's outputs alone
        ctx.close("identities", (np.abs(tab) ** 2).sum(axis=1), np.full(len(th), (2 * l + 1) / (4 * np.pi)), key + "/sum_rule",
                  rtol=0, atol=1e-11, what="sum_m |Y_lm|^2", data={"l": l}, n=len(th))
        sign = (-1.0) ** np.abs(ms)
        ctx.close("identities", tab[:, ::-1], sign[None, :] * np.conj(tab), key + "/conjugation", rtol=0, atol=1e-11,
                  what="Y_l,-m = (-1)^m conj(Y_lm)", data={"l": l}, n=len(th))
        # mpmath on a subset of nodes
        mpmath.mp.dps = 30
        cheb = 0.5 * np.pi * (1 - np.cos(np.pi * (np.arange(9) + 0.5) / 9))
        for a in cheb[:: (1 if ctx.tier == "thorough" else 2)]:
            for b in (-2.5, 0.4, 3.0):
                mp = np.array([complex(mpmath.spherharm(l, int(m), a, b)) for m in ms])
                ctx.close("oracle_vs_mpmath", sph.ylm_all(l, a, b), mp, "oracle/own_vs_mpmath", rtol=0, atol=1e-12,
                          what="own recurrence vs mpmath", n=1)
                ctx.close("table_vs_scipy", np.asarray(fn(float(a), float(b))), mp, key + "/value_mp", rtol=0, atol=eps_tab,
                          what=f"SphHarm{l} vs mpmath", data={"l": l, "theta": a, "phi": b}, n=1)
        # ---- the same angles in other scalar representations (numpy scalars as produced by array indexing, 0-d arrays,
        #      integers; single precision is not fed: its arithmetic legitimately loses 1e-5 at l = 10): the same numbers must give the same table
        for a, b in zip(th[:12], ph[:12]):
            for rep, (x, y) in (("np.float64", (np.float64(a), np.float64(b))), ("0-d array", (np.asarray(a), np.asarray(b))),
                                ("int", (int(round(a)), int(round(b))))):
                ra_, rb_ = (float(int(round(a))), float(int(round(b)))) if rep == "int" else (a, b)
                ok, v = ctx.call(key + "/scalar_representation", fn, x, y, data={"l": l, "theta": x, "phi": y, "representation": rep})
                if ok:
                    tol_ = eps_tab
                    good = np.shape(v) == (2 * l + 1,) and np.abs(np.asarray(v, dtype=complex) - sph_harm_y(l, ms, ra_, rb_)).max() <= tol_
                    ctx.check("scalar_representations", bool(good), key + "/scalar_representation",
                              lambda: f"l={l}: angles given as {rep} ({x!r}, {y!r}) do not give Y_lm", {"l": l, "representation": rep})
        # ---- (3) dispatcher
        # generic angles, both poles exactly (arccos(1.0), arccos(-1.0): bonds along +-z in an axis-aligned crystal), the equator,
        # and the degree given as a Python int or as a numpy integer (for l in np.arange(...))
        for a, b in [(0.3, 0.7), (2.0, -2.0), (0.0, 0.0), (float(np.arccos(-1.0)), 0.0), (float(np.arccos(-1.0)), 1.3), (0.0, -2.1), (np.pi / 2, np.pi)] + \
                [(float(x), float(y)) for x, y in zip(th[:9], ph[:9])]:
            lrep = [l, np.int64(l), np.int32(l)][int(round(abs(a + b) * 1000)) % 3]
            ok, v = ctx.call("sph_harm_l", SH.sph_harm_l, lrep, a, b, data={"l": l, "l_type": type(lrep).__name__, "theta": a, "phi": b})
            if ok:
                good = v is not None and np.shape(v) == (2 * l + 1,) and np.abs(np.asarray(v) - sph_harm_y(l, ms, a, b)).max() <= eps_tab
                ctx.check("dispatcher", bool(good), f"sph_harm_l/l=={l}",
                          lambda: f"dispatcher for l={l} returned {'None' if v is None else 'a wrong table'}", {"l": l})
    ctx.extra["max_interpolation_bound_all_angles"] = worst_bound
    # ---- history: a returned table belongs to the caller; modifying it must not change later results
    rngh = ctx.rng(77)
    for l in list(range(1, 11)) + [11, 12, 15]:
        ms = np.arange(-l, l + 1)
        for rep in range(3):
            a, b = float(np.arccos(rngh.uniform(-1, 1))), float(rngh.uniform(-np.pi, np.pi))
            fns = [("sph_harm_l", lambda: SH.sph_harm_l(l, a, b))]
            if l <= 10:
                fns.append((f"SphHarm{l}", lambda: getattr(SH, f"SphHarm{l}")(a, b)))
            else:
                fns.append(("SphHarm_above", lambda: SH.SphHarm_above(l, a, b)))
            for name, f in fns:
                ok1, v1 = ctx.call(name, f, data={"l": l})
                if not ok1 or v1 is None:
                    continue
                # a returned table belongs to the caller: a later call (other angles) must not change what the caller holds
                keep = np.array(v1, copy=True)
                a2, b2 = float(np.arccos(rngh.uniform(-1, 1))), float(rngh.uniform(-np.pi, np.pi))
                g = {"sph_harm_l": lambda: SH.sph_harm_l(l, a2, b2)}.get(name) or (
                    (lambda: getattr(SH, f"SphHarm{l}")(a2, b2)) if l <= 10 else (lambda: SH.SphHarm_above(l, a2, b2)))
                okg, _vg = ctx.call(name, g, data={"l": l})
                if okg:
                    ctx.check("history", np.array_equal(np.asarray(v1), keep), f"{name}/earlier_result_changed",
                              lambda: f"l={l}: the table returned for one pair of angles changed when the function was called again for other angles",
                              {"l": l, "theta": a, "phi": b})
                try:
                    v1 += 1.0 + 2.0j          # the caller normalises / accumulates in place
                    v1 *= 0.0
                except Exception:  # noqa: BLE001 read-only results are fine
                    pass
                ok2, v2 = ctx.call(name, f, data={"l": l})
                if ok2:
                    good = v2 is not None and np.shape(v2) == (2 * l + 1,) and np.abs(np.asarray(v2) - sph_harm_y(l, ms, a, b)).max() <= 1e-10
                    ctx.check("history", bool(good), f"{name}/history", lambda: f"l={l}: second call with the same angles, after the caller "
                              "modified the first result in place, no longer returns Y_lm", {"l": l, "theta": a, "phi": b})
    # ---- history: consecutive calls for directions that differ by far less than any bond-angle resolution (the same crystal direction up to
    #      coordinate round-off, a slowly rotating bond): every call is answered for ITS angles (Y_lm changes by ~l*delta >> 1e-11)
    rngn = ctx.rng(55)
    for l in list(range(1, 11)) + [11, 12, 15, 20]:
        ms = np.arange(-l, l + 1)
        for _rep in range(6):
            a, b = float(np.arccos(rngn.uniform(-0.95, 0.95))), float(rngn.uniform(-3.0, 3.0))
            seq = [(a, b)]
            for dlt in (3e-7, -4e-8, 1e-9, 2.5e-6):
                seq.append((seq[-1][0] + dlt * float(rngn.uniform(0.5, 1.0)), seq[-1][1] - dlt * float(rngn.uniform(0.5, 1.0))))
            names = [("sph_harm_l", lambda x, y: SH.sph_harm_l(l, x, y))]
            names.append((f"SphHarm{l}", getattr(SH, f"SphHarm{l}")) if l <= 10 else ("SphHarm_above", lambda x, y: SH.SphHarm_above(l, x, y)))
            for name, f in names:
                for x, y in seq:
                    ok, v = ctx.call(name + "/nearby_angles", f, x, y, data={"l": l, "theta": x, "phi": y})
                    if ok:
                        good = v is not None and np.shape(v) == (2 * l + 1,) and np.abs(np.asarray(v) - sph_harm_y(l, ms, x, y)).max() <= (eps_tab if l <= 10 else 1e-10)
                        ctx.check("nearby_angles", bool(good), f"{name}/nearby_angles",
                                  lambda: f"l={l}: after a call for almost the same direction, ({x!r}, {y!r}) is not answered with its own Y_lm "
                                          f"(max dev {np.abs(np.asarray(v) - sph_harm_y(l, ms, x, y)).max():.3g})", {"l": l, "sequence": seq})
    # ---- delegated branch: whole-number angles handed over as integers (Python int, numpy integer), negative azimuth included
    for l in (11, 12, 16, 20):
        ms = np.arange(-l, l + 1)
        for ti in (0, 1, 2, 3):
            for pi_ in (-3, -2, -1, 0, 1, 3):
                for conv in (int, np.int64, np.int32):
                    x, y = conv(ti), conv(pi_)
                    for name, f in (("SphHarm_above", lambda: SH.SphHarm_above(l, x, y)), ("sph_harm_l", lambda: SH.sph_harm_l(l, x, y))):
                        ok, v = ctx.call(name + "/integer_angles", f, data={"l": l, "theta": ti, "phi": pi_, "type": conv.__name__})
                        if ok:
                            good = v is not None and np.shape(v) == (2 * l + 1,) and np.abs(np.asarray(v) - sph_harm_y(l, ms, float(ti), float(pi_))).max() <= 1e-10
                            ctx.check("scalar_representations", bool(good), f"{name}/integer_angles",
                                      lambda: f"l={l}: angles ({ti}, {pi_}) given as {conv.__name__} do not give Y_lm", {"l": l, "theta": ti, "phi": pi_})
    # ---- delegated branch
    rng = ctx.rng(99)
    for l in range(11, 21):
        ms = np.arange(-l, l + 1)
        nr = 30 if ctx.tier == "quick" else 300
        th = np.concatenate([np.arccos(rng.uniform(-1, 1, nr)), [0.0, np.pi, 1.0]])
        ph = np.concatenate([rng.uniform(-np.pi, np.pi, nr), [0.0, np.pi, -1e-12]])
        ctx.case(f"delegated/l{l}", l, th, ph, nontrivial=True)
        for a, b in zip(th, ph):
            ref = sph_harm_y(l, ms, a, b)
            ll = [l, np.int64(l), np.int32(l)][int(round(abs(a + b) * 1000)) % 3]
            for name, f in (("SphHarm_above", lambda: SH.SphHarm_above(ll, float(a), float(b))),
                            ("sph_harm_l", lambda: SH.sph_harm_l(ll, float(a), float(b)))):
                ok, v = ctx.call(name, f, data={"l": l, "theta": a, "phi": b})
                if ok:
                    good = v is not None and np.shape(v) == (2 * l + 1,) and np.abs(np.asarray(v) - ref).max() <= 1e-10
                    ctx.check("delegated", bool(good), f"{name}/l>10", lambda: f"l={l} theta={a} phi={b}: delegated value differs",
                              {"l": l, "theta": a, "phi": b})
            own = sph.ylm_all(l, a, b)
            ctx.close("oracle_vs_scipy", own, ref, "oracle/own_vs_scipy", rtol=0, atol=1e-10, what="own recurrence vs scipy l>10", n=1)


def _worst(tab, ref, th, ph, l):
    e = np.abs(tab - ref)
    i, j = np.unravel_index(np.argmax(e), e.shape)
    return {"theta": th[i], "phi": ph[i], "m": int(j - l), "table": tab[i, j], "reference": ref[i, j]}


def _describe(vals, own, l, grid):
    e = np.abs(vals - own)
    i, j, k = np.unravel_index(np.argmax(e), e.shape)
    return (f"l={l} m={k - l}: table {vals[i, j, k]:.12g} vs Y_lm {own[i, j, k]:.12g} at theta={grid[i]:.6f} "
            f"phi={grid[j]:.6f} (max dev {e.max():.3g}; entries wrong: {sorted(set((np.argwhere(e > 1e-11)[:, 2] - l).tolist()))})")
