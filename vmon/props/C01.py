"""C01 — LAMMPS dump reading preserves every frame's particles, coordinates and cell."""
from __future__ import annotations

import glob
import os

import numpy as np

from .. import REPO
from ..gen import dump as gd

SPEC = {
    "quick_procs": 1, "thorough_procs": 16, "timeout_quick": 300, "timeout_thorough": 1500,
    "anchors": ["PyMatterSim.reader.lammps_reader_helper:read_lammps_wrapper",
                "PyMatterSim.reader.lammps_reader_helper:read_lammps",
                "PyMatterSim.reader.dump_reader:DumpReader.read_onefile"],
    "must_reach": ["PyMatterSim.reader.lammps_reader_helper:read_lammps_wrapper",
                   "PyMatterSim.reader.lammps_reader_helper:read_lammps",
                   "PyMatterSim.reader.dump_reader:DumpReader.read_onefile"],
    "floors": {"frames": 300, "types": 300, "positions_bitwise": 100, "positions_mapped": 100,
               "positions_wrapped": 50, "cell": 300, "sample_files": 5, "reader_object_reread": 20, "empty_frames": 3,
               "atoms_exactly_on_a_box_face": 10, "files_in_other_units_of_length": 20, "layout_changing_between_frames": 20,
               "trailing_columns_named_like_coordinates": 40},
    "insitu": (),
    "rule": ("writer model: truth drawn first, text emitted under LAMMPS conventions; classes {2D,3D} x {x,xs,xu} x "
             "{ortho,tri+,tri-,tri mixed,tri0} x atom order {sorted,reversed,random} x 1..5 frames x origins x number "
             "formats x whitespace x trailing columns x boundary flags, plus the repository's sample dumps through an "
             "independent parser; non-trivial = N>=2 and (origin != 0 or triclinic or shuffled order or >1 frame); "
             "distinct = digest of the file text"),
    "assumptions": ["scaled coordinates: a quarter of the xs frames hold values outside [0,1); the property says scaled coordinates "
                    "are *mapped* through the cell (only the x style is wrapped), so the expected position is lo + s.H verbatim", "triclinic wrapped-style atoms are drawn inside the cell",
                    "files are well-formed: ids 1..N once each, no trailing blank lines"],
}


READERS = {}


def one_file(ctx, rng, path, via_class, big=False):
    from PyMatterSim.reader.dump_reader import DumpReader
    from PyMatterSim.reader.lammps_reader_helper import read_lammps_wrapper
    from PyMatterSim.reader.reader_utils import DumpFileType

    d = int(rng.choice([2, 3]))
    coord = str(rng.choice(["x", "xs", "xu"]))
    cellkind = str(rng.choice(["ortho", "ortho", "tri+", "tri-", "tri", "tri0"]))
    nframes = int(rng.choice([1, 1, 2, 3, 5, 2, 3, 8, 1, 30]))
    order = str(rng.choice(["sorted", "reversed", "random", "mixed"]))
    fmt = str(rng.choice(["repr", "g", "e", "f"]))
    origin_kind = str(rng.choice(["zero", "neg", "large", "asym", "centred"]))
    extra = int(rng.integers(0, 5))
    spurious_z = bool(d == 2 and rng.random() < 0.4)
    flags = str(rng.choice(["pp pp pp", "ff ff ff", "pp ff pp", "pp pp ff", "ss mm pp"]))
    ws = str(rng.choice(["single", "single", "double", "tab", "mixed"]))
    K = int(rng.integers(1, 6))
    N0 = int(rng.choice([1, 2, 3, 5, 8, 13, 21, 40]))
    vary_n = rng.random() < 0.15
    if big:
        # a frame far beyond the usual size (block-wise / buffered reading boundaries: 4096, 8192 lines)
        N0, vary_n, nframes = int(rng.choice([4097, 5000, 9001])), False, 3
        ctx.count("frames_over_4000_atoms", nframes)
    if nframes <= 8:
        ts = np.sort(rng.choice(np.array([0, 1, 7, 100, 2500, 10 ** 6, 10 ** 9, 123456789]), size=nframes, replace=False))
    else:
        ts = int(rng.choice([0, 5000])) + 250 * np.arange(nframes)
    if nframes > 1 and rng.random() < 0.3:
        # restarts and reset_timestep: equal consecutive timesteps and timesteps going backwards are frames like any other
        ts = rng.choice(np.array([0, 0, 100, 100, 2500, 7]), size=nframes, replace=True)
    frames = []
    # the same file in another unit of length (units si: boxes of a few 1e-9 m; fm): only number formats that keep the digits
    unit = float(rng.choice([1e-9, 1e-10, 1e5])) if (fmt != "f" and rng.random() < 0.12) else 1.0
    if unit != 1.0:
        ctx.count("files_in_other_units_of_length")
    # a file whose layout changes from frame to frame (change_box all triclinic between two runs appended to one dump; dump_modify of the
    # coordinate style; files concatenated with cat): every frame carries its own header and is read by it
    mixed_layout = bool(nframes > 1 and not big and rng.random() < 0.15)
    if mixed_layout:
        ctx.count("layout_changing_between_frames")
    # trailing columns named like another coordinate style / the image flags
    alias = int(rng.integers(0, 3)) if (extra > 0 and not mixed_layout and rng.random() < 0.3) else None
    if alias is not None:
        ctx.count("trailing_columns_named_like_coordinates")
    for _k in range(nframes):
        # atom count changing between frames, down to an empty frame (LAMMPS writes "0" atoms when the dumped group is empty)
        N = N0 if not vary_n else int(rng.integers(0, 30))
        ck, cs = cellkind, coord
        if mixed_layout:
            ck = str(rng.choice(["ortho", "tri+", "tri-", "tri"]))
            cs = str(rng.choice(["x", "xs", "xu"]))
        frames.append(gd.gen_frame_truth(rng, d, cs, ck, N, K, fmt, origin_kind, unit))
        if frames[-1]["on_boundary"]:
            ctx.count("atoms_exactly_on_a_box_face", frames[-1]["on_boundary"])
    text, _extras = gd.emit(rng, frames, [int(t) for t in ts], order, extra, spurious_z, flags, ws, alias)
    with open(path, "w") as f:
        f.write(text)
    cls = f"{d}D/{coord}/{cellkind}"
    info = lambda: {"class": cls, "order": order, "fmt": fmt, "origin": origin_kind, "nframes": nframes,  # noqa: E731
                    "file_text": text if len(text) < 6000 else text[:6000] + "...", "via": "DumpReader" if via_class else "wrapper"}
    nontrivial = N0 >= 2 and (origin_kind != "zero" or cellkind != "ortho" or order != "sorted" or nframes > 1)
    if order == "mixed" and nframes > 1:
        ctx.count("line_order_differs_between_frames")
    ctx.case(cls, text, nontrivial=nontrivial,
             sample={"order": order, "nframes": nframes, "timesteps": ts, "head": text[:600]})
    key = f"read_lammps/{coord}/{'triclinic' if cellkind != 'ortho' else 'orthogonal'}" if not mixed_layout else "read_lammps/layout_changes_between_frames"
    if alias is not None:
        key += "/trailing_" + gd.ALIAS[coord][alias][0]
    if via_class:
        # history: half of the reads through the class re-use ONE long-lived reader object per dimension; the file behind its
        # name has been rewritten since the last read (a running simulation appends frames, a scratch name is reused), so
        # every read_onefile() must return what the file holds now
        reuse = bool(rng.random() < 0.5)

        def go():
            if reuse:
                r = READERS.get(d)
                if r is None:
                    r = READERS[d] = DumpReader(path, ndim=d, filetype=DumpFileType.LAMMPS)
                else:
                    ctx.count("reader_object_reread")
            else:
                r = DumpReader(path, ndim=d, filetype=DumpFileType.LAMMPS)
            r.read_onefile()
            return r.snapshots
        ok, snaps = ctx.call(key + ("/reread_same_object" if reuse else ""), go, data=info)
    else:
        ok, snaps = ctx.call(key, read_lammps_wrapper, path, d, data=info)
    if not ok:
        return
    if snaps is None or not hasattr(snaps, "snapshots"):
        ctx.violation(key + "/none", "reader returned no Snapshots", info())
        return
    if not ctx.check("frames", snaps.nsnapshots == nframes and len(snaps.snapshots) == nframes, key + "/framecount",
                     lambda: f"{snaps.nsnapshots} snapshots (list {len(snaps.snapshots)}) for {nframes} frames", info):
        return
    for k, (fr, s) in enumerate(zip(frames, snaps.snapshots)):
        N = fr["N"]
        if N == 0:
            ctx.count("empty_frames")
        ctx.check("frames", s.timestep == int(ts[k]) and s.nparticle == N, key + "/header",
                  lambda: f"frame {k}: timestep {s.timestep} (file {ts[k]}), nparticle {s.nparticle} (file {N})", info)
        pt = np.asarray(s.particle_type)
        ctx.check("types", pt.shape == (N,) and np.array_equal(pt, fr["types"]), key + "/types",
                  lambda: f"frame {k}: per-id types differ", info)
        pos = np.asarray(s.positions, dtype=float)
        if pos.shape != (N, d):
            ctx.violation(key + "/posshape", f"positions shape {pos.shape} != {(N, d)}", info())
            continue
        exp, how = gd.expected_positions(fr)
        scale = max(np.abs(fr["rlo"]).max(), np.abs(fr["rhi"]).max(), 1.0 if unit == 1.0 else 0.0)      # relative to the file's own lengths
        if how == "bitwise":
            ctx.check("positions_bitwise", np.array_equal(pos, exp), key + "/positions",
                      lambda: f"frame {k}: verbatim coordinates differ, max dev {np.abs(pos - exp).max():.3g}; "
                              f"first rows got {pos[:2].tolist()} expected {exp[:2].tolist()}", info)
        elif how == "mapped":
            ctx.close("positions_mapped", pos, exp, key + "/positions", rtol=1e-12, scale=scale,
                      what=f"frame {k}: scaled->Cartesian", data=info, n=1)
        else:
            lo, hi, L = fr["rlo"][:d], fr["rhi"][:d], fr["L"][:d]
            inp = fr["pf"][:, :d]
            tol = 8 * np.finfo(float).eps * scale
            inside_in = (inp >= lo) & (inp <= hi)
            c1 = np.all((pos >= lo - tol) & (pos <= hi + tol))
            diff = pos - inp
            c2 = np.all((np.abs(diff) <= tol) | (np.abs(np.abs(diff) - L) <= tol))
            c3 = np.all(np.abs(diff[inside_in]) == 0) if inside_in.any() else True
            ctx.check("positions_wrapped", c1 and c2 and c3, key + "/wrap",
                      lambda: f"frame {k}: wrapped coordinates: inside_box={bool(c1)} moved_by_0_or_L={bool(c2)} "
                              f"inside_unchanged={bool(c3)}", info)
        # cell
        bb = np.asarray(s.boxbounds, dtype=float)
        okc = bb.shape == (d, 2) and np.array_equal(bb, fr["boxf"][:d, :2])
        bl = np.asarray(s.boxlength, dtype=float)
        okc &= bl.shape == (d,) and np.allclose(bl, fr["L"][:d], rtol=0, atol=1e-12 * scale)
        hm = np.asarray(s.hmatrix, dtype=float)
        okc &= hm.shape == (d, d) and np.allclose(hm, fr["H"][:d, :d], rtol=0, atol=1e-12 * scale)
        if fr["tri"]:
            rb = s.realbounds
            okc &= rb is not None and np.asarray(rb).shape == (d, 2) and np.allclose(
                np.asarray(rb, float), np.column_stack([fr["rlo"][:d], fr["rhi"][:d]]), rtol=0, atol=1e-12 * scale)
        ctx.check("cell", bool(okc), key + "/cell",
                  lambda: f"frame {k}: bounds/lengths/real bounds/h-matrix differ: boxbounds={bb.tolist()} "
                          f"boxlength={bl.tolist()} hmatrix={hm.tolist()} expected H={fr['H'][:d, :d].tolist()}", info)


def sample_files(ctx):
    from PyMatterSim.reader.lammps_reader_helper import read_lammps_wrapper
    base = os.path.join(REPO, "tests", "sample_test_data")
    files = []
    for pat, d in (("*.atom", None), ("*.dump", None), ("2d/*.atom", 2), ("3d/*.atom", 3)):
        for p in sorted(glob.glob(os.path.join(base, pat))):
            files.append((p, d))
    for p, d in files:
        with open(p) as f:
            head = [next(f) for _ in range(10)]
        cols = head[8].split()[2:]
        if d is None:
            d = 2 if (head[7].split()[:2] in (["-0.5", "0.5"], ["-0.500000", "0.500000"]) or "z" not in cols and "zu" not in cols and "zs" not in cols) else 3
        if not any(c in cols for c in ("x", "xu")) or "xs" in cols:
            continue
        key = "read_lammps/samplefile"
        ok, snaps = ctx.call(key, read_lammps_wrapper, p, d, data={"file": p})
        if not ok:
            continue
        ref = gd.independent_parse(p, d)
        good = snaps.nsnapshots == len(ref)
        for s, r in zip(snaps.snapshots, ref):
            good &= s.timestep == r["ts"] and s.nparticle == r["n"] and np.array_equal(s.particle_type, r["types"])
            pos = np.asarray(s.positions)
            if "xu" in r["cols"] or r["tri"]:
                good &= np.array_equal(pos, r["pos"])
            else:
                lo, hi = r["box"][:d, 0], r["box"][:d, 1]
                L = hi - lo
                diff = pos - r["pos"]
                good &= bool(np.all((np.abs(diff) < 1e-9) | (np.abs(np.abs(diff) - L) < 1e-9)))
                good &= bool(np.all((pos >= lo - 1e-9) & (pos <= hi + 1e-9)))
            good &= np.array_equal(np.asarray(s.boxbounds)[:, :2], r["box"][:d, :2])
        ctx.case("samplefile", p, os.path.getsize(p), nontrivial=True)
        ctx.check("sample_files", bool(good), key, f"{os.path.basename(p)}: reader and independent parser disagree", {"file": p})


def run(ctx):
    from ..harness import fresh_dir, drop_dir
    wd = fresh_dir("c01")
    if ctx.shard == 0 or ctx.thorough:
        for k_ in range(2):
            one_file(ctx, ctx.rng(), os.path.join(wd, "t.dump"), via_class=bool(k_), big=True)
    n = ctx.n(1200, 2000)
    for i in range(n):
        rng = ctx.rng()
        one_file(ctx, rng, os.path.join(wd, "t.dump"), via_class=(i % 3 == 0))
        if ctx.out_of_time():
            break
    if ctx.shard == 0:
        sample_files(ctx)
    drop_dir(wd)
