"""C02 — minimum-image displacements: lattice translations only, into the half cell."""
from __future__ import annotations

import itertools

import numpy as np

SPEC = {
    "quick_procs": 1, "thorough_procs": 16, "timeout_quick": 300, "timeout_thorough": 1500,
    "anchors": ["PyMatterSim.utils.pbc:remove_pbc"],
    "must_reach": ["PyMatterSim.utils.pbc:remove_pbc"],
    "floors": {"lattice": 1000, "halfcell": 1000, "nonperiodic": 300, "shift_invariance": 300,
               "idempotence": 1000, "shortest_orthogonal": 300, "history": 500, "arrays_over_1000_rows": 5, "integer_dtype_cells": 100},
    "rule": ("random displacement arrays x cells {orthogonal, lower-triangular inside/outside LAMMPS tilt limits, "
             "general cond<=1e3} x d in {2,3} x all 2^d masks x magnitudes up to +-50 cells x adversarial values; "
             "a case is non-trivial when at least one periodic fractional coordinate had to be reduced (|f|>1/2); "
             "distinct = digest of (array, cell, mask)"),
    "assumptions": ["float64 arithmetic; tolerance 256*eps*cond(H)*max(1,|f|)",
                    "shift-invariance clause evaluated away from exact half-cell ties (|frac(f)-1/2|>1e-6)"],
}


def gen_cell(rng, d):
    kind = rng.choice(["ortho", "lammps", "bigtilt", "general", "scaled", "sparse"])
    L = rng.uniform(0.5, 1000.0 if rng.random() < 0.2 else 20.0, size=d)
    if kind == "ortho":
        H = np.diag(L)
    elif kind in ("lammps", "bigtilt"):
        H = np.diag(L)
        lim = 0.5 if kind == "lammps" else 3.0
        H[1, 0] = rng.uniform(-lim, lim) * L[0]
        if d == 3:
            H[2, 0] = rng.uniform(-lim, lim) * L[0]
            H[2, 1] = rng.uniform(-lim, lim) * L[1]
    elif kind == "sparse":
        # a diagonal plus one or two off-diagonal entries ANYWHERE (a tilt above the diagonal: the primitive cell of a triangular lattice
        # written as [[lx, b], [0, ly]]; a single xz or yz tilt): whether a cell is "orthogonal" cannot be read off one triangle
        H = np.diag(L)
        for _ in range(int(rng.integers(1, 3))):
            i_, j_ = rng.choice(d, size=2, replace=False)
            H[int(i_), int(j_)] = rng.uniform(-0.5, 0.5) * L[int(j_)]
    elif kind == "general":
        while True:
            H = rng.normal(size=(d, d)) * L[:, None]
            if np.linalg.cond(H) < 1e3:
                break
    else:
        # the same physics in another unit of length (SI metres: 1e-10..1e-9; Angstrom cells in fm: 1e5): orthogonal or tilted -- an
        # absolute tolerance anywhere in the routine makes the answer depend on the unit
        H = np.diag(L)
        if rng.random() < 0.6:
            H[1, 0] = rng.uniform(-0.5, 0.5) * L[0]
            if d == 3:
                H[2, 0] = rng.uniform(-0.5, 0.5) * L[0]
                H[2, 1] = rng.uniform(-0.5, 0.5) * L[1]
        H = H * 10.0 ** float(rng.choice([-10, -9, -6, 6]))
    return str(kind), H


def gen_R(rng, H, d):
    n = int(rng.integers(1, 200))
    if rng.random() < 0.004:
        n = int(rng.choice([1025, 4097, 65537, 100003]))   # arrays far beyond the usual size (block-wise evaluation has its boundaries here)
    mode = rng.choice(["frac", "big", "adversarial", "tiny", "single"])
    if mode == "frac":
        f = rng.uniform(-1.5, 1.5, size=(n, d))
    elif mode == "big":
        f = rng.uniform(-50, 50, size=(n, d))
    elif mode == "tiny":
        f = rng.normal(0, 1e-9, size=(n, d))
    elif mode == "single":
        f = rng.uniform(-3, 3, size=(1, d))
    else:
        vals = np.array([0.0, 0.5, -0.5, 1.0, -1.0, 1.5, 2.0, 0.5 - 1e-12, 0.5 + 1e-12, -0.5 + 1e-12, 0.49999, 0.50001, 7.0, -13.0])
        f = rng.choice(vals, size=(n, d))
    return str(mode), f @ H


def history_case(ctx, rng, remove_pbc):
    """the same cell-matrix *object* is deformed in place between calls (shear / compression loops):
    every call must honour the cell as it is now."""
    from ..interpose import pbc_post
    d = int(rng.choice([2, 3]))
    _kind, H = gen_cell(rng, d)
    ppp = np.array([1] * d) if rng.random() < 0.6 else rng.integers(0, 2, size=d)
    for step in range(6):
        _mode, R = gen_R(rng, H, d)
        ok, out = ctx.call("remove_pbc/history", remove_pbc, R.copy(), H, ppp, data={"H": H, "step": step})
        if ok:
            bad = pbc_post((R, H, ppp), {}, out)
            ctx.check("history", bad is None, "remove_pbc/history", lambda: f"after deforming the same cell array in place (step {step}): {bad[1]}",
                      lambda: {"H_now": H, "ppp": ppp, "step": step})
        # in-place deformation of the very same ndarray: compression, shear with stretch, or PURE shear (edge lengths -- the
        # diagonal -- unchanged, only a tilt factor moves: fix deform xy); or another array with the same diagonal and another tilt
        u = rng.random()
        if u < 0.3:
            H *= float(rng.uniform(0.6, 1.7))
        elif u < 0.5:
            if d == 3:
                H[2, 0] += float(rng.uniform(-0.4, 0.4)) * H[0, 0]
                H[1, 1] *= float(rng.uniform(0.7, 1.4))
            else:
                H[1, 0] += float(rng.uniform(-0.4, 0.4)) * H[0, 0]
                H[0, 0] *= float(rng.uniform(0.7, 1.4))
        elif u < 0.8:
            H[1, 0] += float(rng.choice([-1, 1]) * rng.uniform(0.15, 0.45)) * H[0, 0]
            if d == 3 and rng.random() < 0.5:
                H[2, 1] += float(rng.choice([-1, 1]) * rng.uniform(0.15, 0.45)) * H[1, 1]
        else:
            H = H.copy()
            H[1, 0] = float(rng.uniform(-0.5, 0.5)) * H[0, 0]
            if d == 3:
                H[2, 0] = float(rng.uniform(-0.5, 0.5)) * H[0, 0]


def run(ctx):
    from PyMatterSim.utils.pbc import remove_pbc  # binding replaced by the in-situ contract as well
    for _ in range(ctx.n(600, 2000)):
        history_case(ctx, ctx.rng(), remove_pbc)
    eps = np.finfo(float).eps
    ncase = ctx.n(9000, 30000)
    for _ in range(ncase):
        rng = ctx.rng()
        d = int(rng.choice([2, 3]))
        kind, H = gen_cell(rng, d)
        mode, R = gen_R(rng, H, d)
        masks = list(itertools.product([0, 1], repeat=d))
        ppp = np.array(masks[int(rng.integers(0, len(masks)))])
        as_vector = (R.shape[0] == 1 and rng.random() < 0.5)
        arg = R[0].copy() if as_vector else R.copy()
        # the same values in the representations real callers hand over: read-only (snapshot arrays from pandas / memmap),
        # Fortran order, strided column views, integer-valued displacements stored as integers, masks as list / tuple / bool
        rep = str(rng.choice(["plain", "plain", "plain", "readonly", "fortran", "strided", "intvalues", "listmask", "boolmask", "intcell"]))
        Harg, parg = H.copy(), ppp.copy()
        if rep == "readonly":
            for a_ in (arg, Harg, parg):
                a_.setflags(write=False)
        elif rep == "fortran" and arg.ndim == 2:
            arg, Harg = np.asfortranarray(arg), np.asfortranarray(Harg)
        elif rep == "strided" and arg.ndim == 2:
            big = np.full((arg.shape[0], 2 * d + 1), 3.25)
            big[:, 1::2] = arg
            arg = big[:, 1::2]
        elif rep == "intvalues" and kind == "ortho":
            R = np.rint(R)
            arg = (R[0] if as_vector else R).astype(np.int64)
        elif rep == "intcell" and kind in ("ortho", "lammps", "bigtilt"):
            # a cell whose entries are whole numbers, handed over as an integer array (np.diag([10, 10, 10]), np.array([[12, 0], [5, 9]]))
            H = np.rint(H * (1 if np.abs(np.diag(H)).min() >= 2 else 4))
            Harg = H.astype(np.int64 if rng.random() < 0.5 else np.int32)
            ctx.count("integer_dtype_cells")
        elif rep == "listmask":
            parg = [int(v) for v in ppp] if rng.random() < 0.5 else tuple(int(v) for v in ppp)
        elif rep == "boolmask":
            parg = ppp.astype(bool)
        before = (np.array(arg, copy=True), Harg.copy(), np.array(parg, copy=True))
        info = lambda: {"H": H, "ppp": ppp, "R": R[:6], "cell": kind, "mode": mode, "representation": rep}  # noqa: E731
        ok, out = ctx.call("remove_pbc", remove_pbc, arg, Harg, parg, data=info)
        if not ok:
            continue
        ctx.check("inputs_untouched", np.array_equal(before[0], np.asarray(arg)) and np.array_equal(before[1], Harg) and
                  np.array_equal(before[2], np.asarray(parg)), "remove_pbc/input_modified", "an argument array was modified in place", info)
        ctx.count("rep_" + rep)
        if R.shape[0] > 1000:
            ctx.count("arrays_over_1000_rows")
        out = np.atleast_2d(np.asarray(out, float))
        Hinv = np.linalg.inv(H)
        cond = np.linalg.cond(H)
        f_in = R @ Hinv
        f_out = out @ Hinv
        tol = 64 * eps * cond * max(1.0, np.abs(f_in).max())
        p = ppp.astype(bool)
        nontrivial = bool((np.abs(f_in[:, p]) > 0.5).any()) if p.any() else False
        ctx.case(f"{kind}/{mode}/d{d}/mask{''.join(map(str, ppp))}"[:40].split("/mask")[0], R, H, ppp,
                 nontrivial=nontrivial, sample={"H": H, "ppp": ppp, "R_first": R[:2], "out_first": out[:2]})
        if out.shape != R.shape:
            ctx.violation("remove_pbc/shape", f"shape {out.shape} vs {R.shape}", info())
            continue
        # clause 1: integer combinations of periodic cell vectors only
        n = f_in - f_out
        nint = np.rint(n)
        ctx.check("lattice", np.all(np.abs(n - nint) <= tol), "remove_pbc/lattice",
                  lambda: f"output - input not a lattice vector (max dev {np.abs(n - nint).max():.3g}, tol {tol:.3g})", info)
        if (~p).any():
            ctx.check("nonperiodic", np.all(np.abs(n[:, ~p]) <= tol), "remove_pbc/nonperiodic",
                      "fractional component along a non-periodic axis changed", info)
        # clause 2: half cell
        if p.any():
            ctx.check("halfcell", np.abs(f_out[:, p]).max() <= 0.5 + tol, "remove_pbc/halfcell",
                      lambda: f"fractional coordinate {np.abs(f_out[:, p]).max()} outside [-1/2,1/2]", info)
        # clause 3: invariance under prior lattice shifts (away from ties)
        frac = f_in - np.floor(f_in)
        away = np.abs(frac - 0.5) > 1e-6
        if away[:, p].all():
            m = rng.integers(-9, 10, size=R.shape) * ppp[None, :]
            ok2, out2 = ctx.call("remove_pbc", remove_pbc, R + m @ H, H.copy(), ppp.copy(), data=info)
            if ok2:
                scale = np.abs(H).max()
                tol3 = 64 * eps * cond * max(1.0, np.abs(f_in).max() + 10) * scale * d
                ctx.check("shift_invariance", np.abs(np.atleast_2d(out2) - out).max() <= tol3, "remove_pbc/shift_invariance",
                          lambda: f"result changed by {np.abs(np.atleast_2d(out2) - out).max():.3g} after adding lattice vectors", info)
        else:
            ctx.skip("shift_invariance")
        # clause 4: idempotence (a value at exactly +-1/2 may flip sign under round-half-even: tie -> skip those rows)
        ok3, out3 = ctx.call("remove_pbc", remove_pbc, out.copy(), H.copy(), ppp.copy(), data=info)
        if ok3:
            out3 = np.atleast_2d(out3)
            tie = (np.abs(np.abs(f_out) - 0.5) <= 4 * tol) & p[None, :]
            rows = ~tie.any(axis=1)
            if rows.any():
                scale = np.abs(H).max()
                ctx.check("idempotence", np.abs(out3[rows] - out[rows]).max() <= 64 * eps * cond * scale * d * 4,
                          "remove_pbc/idempotence", "applying twice differs from applying once", info)
            ctx.skip("idempotence", int((~rows).sum()))
        # clause 5: shortest image for orthogonal cells (per-axis brute force)
        if np.array_equal(H, np.diag(np.diag(H))) and kind != "general":   # exactly diagonal (no absolute tolerance: cells come in any unit)
            L = np.diag(H)
            best = np.abs(R)
            for k in range(-60, 61):
                best = np.where(p[None, :], np.minimum(best, np.abs(R + k * L[None, :])), best)
            ctx.check("shortest_orthogonal", np.all(np.abs(out) <= best + 64 * eps * np.maximum(np.abs(R), L[None, :]) * 4),
                      "remove_pbc/shortest", "a shorter periodic image exists (orthogonal cell)", info)
