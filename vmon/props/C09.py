"""C09 — 3D bond-orientational order equals Steinhardt's definitions."""
from __future__ import annotations

import os

import numpy as np
from scipy.special import sph_harm_y

from ..gen import config as gc
from ..ref import geom, wigner
from ..ref import gr as rgr
from .C05 import parse_file
from .C06 import write_nl
from .C14 import ref_corr

SPEC = {
    "quick_procs": 4, "thorough_procs": 16, "timeout_quick": 600, "timeout_thorough": 3000,
    "anchors": ["PyMatterSim.static.boo:boo_3d.qlm_Qlm", "PyMatterSim.static.boo:boo_3d.ql_Ql", "PyMatterSim.static.boo:boo_3d.sij_ql_Ql",
                "PyMatterSim.static.boo:boo_3d.w_W_cap", "PyMatterSim.static.boo:boo_3d.spatial_corr", "PyMatterSim.static.boo:boo_3d.time_corr",
                "PyMatterSim.utils.funcs:Wignerindex"],
    "must_reach": ["PyMatterSim.static.boo:boo_3d.qlm_Qlm", "PyMatterSim.static.boo:boo_3d.ql_Ql", "PyMatterSim.static.boo:boo_3d.sij_ql_Ql",
                   "PyMatterSim.static.boo:boo_3d.w_W_cap", "PyMatterSim.static.boo:boo_3d.spatial_corr", "PyMatterSim.static.boo:boo_3d.time_corr"],
    "floors": {"qlm": 2000, "Qlm": 2000, "ql": 300, "ql_bounds": 50, "w": 200, "wcap": 200, "sij": 100, "sij_bounds": 80, "sij_count": 40, "sij_table": 40,
               "spatial_corr": 20, "time_corr": 20, "equal_weights": 10, "crystals": 20, "weighted_cases": 8},
    "rule": ("neighbour definitions {repository N-nearest, cut-off, freud Voronoi with face-area weights, own ragged files with own "
             "weights} x l 2..12 x local/coarse-grained x {orthogonal, triclinic} x masks x 1..3 frames (even / uneven spacing) x "
             "N 12..50; perfect fcc/hcp/bcc/sc crystals and the 13-atom icosahedron against literature values; non-trivial = every "
             "particle has >=1 neighbour; distinct = digest of (positions, lists, weights, l)"),
    "assumptions": ["Y_lm from scipy.special.sph_harm_y, Wigner 3-j from an own exact Racah implementation",
                    "bonds shorter than half the smallest perpendicular cell width (R2)",
                    "spatial correlation: the documented 4pi/(2l+1) prefactor is not applied by the code; the monitor accepts a "
                    "constant ratio of either 1 or 4pi/(2l+1) between code and brute-force value",
                    "threshold count compared only when no s_ij is within 1e-5 of c; c drawn from [0,1)"],
}

LIT = {  # Steinhardt et al. 1983; Mickel et al. 2013
    "fcc": {"q4": 0.19094, "q6": 0.57452, "w4": -0.15932, "w6": -0.01316},
    "hcp": {"q4": 0.09722, "q6": 0.48476, "w4": 0.13410, "w6": -0.01244},
    "bcc14": {"q4": 0.03637, "q6": 0.51069, "w4": 0.15932, "w6": 0.01316},
    "bcc8": {"q4": 0.50918, "q6": 0.62854},
    "sc": {"q4": 0.76376, "q6": 0.35355, "w4": 0.15932, "w6": 0.01316},
    "ico": {"q6": 0.66332, "w6": -0.16975},
}


def ref_qlm(pos, H, ppp, lists, weights, l):
    N = len(pos)
    ms = np.arange(-l, l + 1)
    q = np.zeros((N, 2 * l + 1), dtype=complex)
    maxbond = 0.0
    for i in range(N):
        js = lists[i]
        dR = pos[js] - pos[i]
        v, dist, _ = geom.min_image_vectors(dR, H, ppp)
        maxbond = max(maxbond, float(dist.max()))
        theta = np.arccos(np.clip(v[:, 2] / dist, -1, 1))
        phi = np.arctan2(v[:, 1], v[:, 0])
        Y = sph_harm_y(l, ms[None, :], theta[:, None], phi[:, None])
        if weights is None:
            q[i] = Y.mean(axis=0)
        else:
            w = np.asarray(weights[i], float)
            q[i] = (Y * (w / w.sum())[:, None]).sum(axis=0)
    Q = np.array([(q[i] + q[lists[i]].sum(axis=0)) / (1 + len(lists[i])) for i in range(N)])
    return q, Q, maxbond


def crystal(kind, rng):
    """returns (positions, H, lists-source) for a perfect periodic crystal (or open cluster)"""
    a = float(rng.uniform(1.0, 2.0))
    m = 3
    if kind in ("fcc", "bcc14", "bcc8", "sc"):
        basis = {"fcc": [[0, 0, 0], [.5, .5, 0], [.5, 0, .5], [0, .5, .5]], "bcc14": [[0, 0, 0], [.5, .5, .5]], "bcc8": [[0, 0, 0], [.5, .5, .5]],
                 "sc": [[0, 0, 0]]}[kind]
        m = 3 if kind != "sc" else 4
        cells = np.array([[i, j, k] for i in range(m) for j in range(m) for k in range(m)])
        frac = (np.array(basis)[None] + cells[:, None]).reshape(-1, 3) / m
        H = np.eye(3) * a * m
        nn = {"fcc": 12, "bcc14": 14, "bcc8": 8, "sc": 6}[kind]
        return frac @ H, H, nn, np.ones(3, dtype=int)
    if kind == "hcp":
        c = np.sqrt(8.0 / 3.0)
        # orthorhombic 4-atom cell of hcp: a x sqrt(3)a x c
        basis = np.array([[0, 0, 0], [.5, .5, 0], [.5, 1.0 / 6, .5], [0, 2.0 / 3, .5]])
        mm = (4, 3, 3)
        cells = np.array([[i, j, k] for i in range(mm[0]) for j in range(mm[1]) for k in range(mm[2])])
        frac = (basis[None] + cells[:, None]).reshape(-1, 3) / np.array(mm)
        H = np.diag([a * mm[0], np.sqrt(3) * a * mm[1], c * a * mm[2]])
        return frac @ H, H, 12, np.ones(3, dtype=int)
    # icosahedron: centre + 12 vertices, open boundaries in a big box
    g = (1 + np.sqrt(5)) / 2
    v = []
    for s1 in (-1, 1):
        for s2 in (-1, 1):
            v += [[0, s1, s2 * g], [s1, s2 * g, 0], [s2 * g, 0, s1]]
    v = np.array(v, float) * a / 2
    Rm, _ = np.linalg.qr(rng.normal(size=(3, 3)))
    pos = np.vstack([[0, 0, 0], v]) @ Rm.T + 20.0
    return pos, np.eye(3) * 40.0, 12, np.zeros(3, dtype=int)


def case_crystal(ctx, rng, wd, kind):
    from PyMatterSim.neighbors.calculate_neighbors import Nnearests
    from PyMatterSim.static.boo import boo_3d
    pos, H, nn, ppp = crystal(kind, rng)
    N = len(pos)
    pos = pos[rng.permutation(N)] if kind != "ico" else pos
    cell = {"H": H, "L": np.diag(H), "origin": np.zeros(3), "tilt": (0, 0, 0), "kind": "ortho", "d": 3}
    snaps = gc.snapshots_from([gc.snapshot_from(cell, None, np.ones(N, dtype=int), 0, positions=pos)])
    fn = os.path.join(wd, "nl_c.dat")
    Nnearests(snaps, nn, ppp, fn)
    info = lambda: {"crystal": kind, "N": N, "neighbours": nn}  # noqa: E731
    ctx.case(f"crystal/{kind}", pos, kind, nontrivial=True, sample={"crystal": kind, "N": N, "neighbours": nn})
    for l in (4, 6):
        if f"q{l}" not in LIT[kind]:
            continue
        ok, b = ctx.call("boo_3d", boo_3d, snaps, l, fn, None, ppp, 30, data=info)
        if not ok:
            return
        ok1, ql = ctx.call("boo_3d.ql_Ql", b.ql_Ql, False, None, data=info)
        ok2, ww = ctx.call("boo_3d.w_W_cap", b.w_W_cap, False, None, None, data=info)
        sel = slice(0, 1) if kind == "ico" else slice(None)
        if ok1:
            ctx.close("crystals", np.asarray(ql)[0][sel], np.full(len(np.asarray(ql)[0][sel]), LIT[kind][f"q{l}"]), f"boo_3d/crystal/{kind}/q{l}", rtol=0, atol=5e-5,
                      what=f"{kind} q{l} literature value", data=info, n=1)
        if ok2 and f"w{l}" in LIT[kind]:
            ctx.close("crystals", np.asarray(ww[1])[0][sel], np.full(len(np.asarray(ww[1])[0][sel]), LIT[kind][f"w{l}"]), f"boo_3d/crystal/{kind}/w{l}", rtol=0, atol=5e-5,
                      what=f"{kind} w-hat{l} literature value", data=info, n=1)
    os.remove(fn)


def csv_matches(ctx, path, frame, key, info):
    """the csv holds exactly the returned table: same column names, same shape, values to the written precision (%.8f)"""
    import pandas as pd
    try:
        back = pd.read_csv(path)
        good = list(back.columns) == list(frame.columns) and back.shape == frame.shape and \
            bool(np.all(np.abs(back.values - frame.values) <= 0.5000001e-8 + 1e-12 * np.abs(frame.values)))
        msg = f"csv columns {list(back.columns)} shape {back.shape} vs returned {list(frame.columns)} {frame.shape}, or values beyond %.8f"
    except Exception as e:  # noqa: BLE001
        good, msg = False, f"csv unreadable: {e!r}"
    ctx.check("output_files", bool(good), key, msg, info)
    if os.path.exists(path):
        os.remove(path)


def files_match(ctx, path, returned, key, info):
    """the binary file holds the returned array exactly (written as <name>.npy unless the name already ends in .npy); a .dat / .txt
    name additionally gets a text table at the written precision"""
    pn = path if path.endswith(".npy") else path + ".npy"
    good = os.path.exists(pn) and np.array_equal(np.load(pn), returned, equal_nan=True)
    msg = "binary file missing or different from the returned array"
    if good and not path.endswith(".npy"):
        try:
            t = np.loadtxt(path, ndmin=2)
            good = t.shape == returned.shape and bool(np.all(np.abs(t - returned) <= 0.5000001e-6 + 1e-12 * np.abs(returned)))
            msg = "text table differs from the returned array beyond the written precision"
        except Exception as e:  # noqa: BLE001
            good, msg = False, f"text table unreadable: {e!r}"
    ctx.check("output_files", bool(good), key, msg, info)
    for q in (pn, path):
        if os.path.exists(q):
            os.remove(q)


def case_random(ctx, rng, wd, l=None):
    from PyMatterSim.neighbors import calculate_neighbors as cn
    from PyMatterSim.neighbors.freud_neighbors import cal_neighbors
    from PyMatterSim.static.boo import boo_3d
    l = l or int(rng.integers(2, 13))
    nlkind = str(rng.choice(["nnearest", "cutoff", "voronoi", "own", "own"]))
    cellkind = "ortho" if nlkind == "voronoi" else str(rng.choice(["ortho", "ortho", "tri"]))
    T = int(rng.choice([1, 2, 3]))
    N = int(rng.integers(12, 36 if l > 8 else 50))
    bigsys = N >= 33 and l <= 8 and T == 1 and nlkind in ("nnearest", "own")
    if bigsys:
        N = int(rng.choice([130, 260, 420]))          # beyond the usual size (block-wise evaluation boundaries)
    cell = gc.make_cell(rng, 3, cellkind, lmin=4.5 * (N / 40.0) ** (1 / 3) if bigsys else 4.5, lmax=7.5 * (N / 40.0) ** (1 / 3) if bigsys else 7.5)
    f0 = gc.make_frac(rng, 3, N, str(rng.choice(["gas", "lattice", "hardcore"])))
    N = len(f0)
    uneven = T == 3 and rng.random() < 0.4
    ts = [0, 100, 700] if uneven else [100 * t for t in range(T)]
    # a sheared trajectory (equal edge lengths, an own tilt per frame) is a valid input: every frame has its own cell matrix
    shear = cellkind == "tri" and T > 1 and rng.random() < 0.5
    cells = [cell] + [gc.retilt(rng, cell) if shear else cell for _ in range(T - 1)]
    snaps = gc.snapshots_from([gc.snapshot_from(cells[t], (f0 + (rng.normal(0, 0.03, f0.shape) if t else 0)) % 1.0, np.ones(N, dtype=int), ts[t]) for t in range(T)])
    H = cell["H"]
    Hs = [c["H"] for c in cells]
    if shear:
        cellkind = "tri/sheared"
    ppp = np.ones(3, dtype=int) if nlkind == "voronoi" else gc.random_mask(rng, 3, allow_open=False)
    if nlkind != "voronoi":
        gc.unwrap_in_place(rng, snaps.snapshots, Hs, ppp)       # unwrapped coordinates: the same periodic configuration, the same bonds
    ra = min(geom.agreement_radius(Hf, ppp) for Hf in Hs)
    fn = os.path.join(wd, "nl.dat")
    fw = None
    tables = [geom.pair_table(s.positions, Hf, ppp)[1] for s, Hf in zip(snaps.snapshots, Hs)]
    if min(float(np.min(t + np.eye(N) * 9)) for t in tables) < 1e-3:
        return
    if nlkind == "nnearest":
        cn.Nnearests(snaps, int(rng.integers(3, min(13, N))), ppp, fn)   # N_nn <= N-1 (domain)
    elif nlkind == "cutoff":
        flat = np.sort(tables[0][np.triu_indices(N, 1)])
        rc = min(flat[int(0.12 * len(flat))], 0.9 * ra)
        cn.cutoffneighbors(snaps, float(rc), ppp, fn)
    elif nlkind == "voronoi":
        cal_neighbors(snaps, os.path.join(wd, "vor"))
        fn = os.path.join(wd, "vor.neighbor.dat")
        fw = os.path.join(wd, "vor.facearea.dat")
    else:
        lists_own, w_own = [], []
        for t in range(T):
            ll, ww = [], []
            for i in range(N):
                order = [int(j) for j in np.argsort(tables[t][i]) if j != i and tables[t][i, j] < 0.9 * ra]
                k = int(rng.integers(1, min(len(order), 14) + 1)) if order else 0
                pick = [int(v) for v in rng.permutation(order[:max(k + 3, k)])[:k]]
                ll.append(pick)
                ww.append(np.round(rng.uniform(0.05, 3.0, size=len(pick)), 6))
            lists_own.append(ll)
            w_own.append(ww)
        if rng.random() < 0.3:
            # history: ANOTHER list of the same shape lived under this name and was analysed with the same arguments; it was then replaced
            # by the present one with its time stamp preserved (cp -p, restored from a backup): the content decides
            alt = [[x[:max(1, len(x) // 2)] for x in ll] for ll in lists_own]
            if all(len(x) for ll in alt for x in ll) and alt != lists_own:
                write_nl(fn, alt)
                st_ = os.stat(fn)
                ctx.call("boo_3d/prior_object_other_file", boo_3d, snaps, l, fn, None, ppp, max(30, max(len(x) for ll in lists_own for x in ll) + 1))
                write_nl(fn, lists_own)
                os.utime(fn, ns=(st_.st_atime_ns, st_.st_mtime_ns))
                ctx.count("file_replaced_with_preserved_time_stamp")
            else:
                write_nl(fn, lists_own)
        else:
            write_nl(fn, lists_own)
        if rng.random() < 0.6:
            fw = os.path.join(wd, "w.dat")
            with open(fw, "w") as f:
                for t in range(T):
                    f.write("id   cn   facearealist\n")
                    for i in range(N):
                        f.write(" ".join([str(i + 1), str(len(w_own[t][i]))] + ["%.6f" % v for v in w_own[t][i]]) + "\n")
    hdr, fr = parse_file(fn)
    lists = [[[int(v) - 1 for v in row[2:2 + int(row[1])]] for row in sorted(rows, key=lambda r: int(r[0]))] for rows in fr]
    weights = None
    if fw:
        _h, fwr = parse_file(fw)
        weights = [[[float(v) for v in row[2:2 + int(row[1])]] for row in sorted(rows, key=lambda r: int(r[0]))] for rows in fwr]
    if any(len(x) == 0 for ll in lists for x in ll):
        return
    maxcn = max(len(x) for ll in lists for x in ll)
    Nmax = max(30, maxcn + 1)
    info = lambda: {"l": l, "nl": nlkind, "N": N, "T": T, "cell": cellkind, "H": Hs, "ppp": ppp, "weights": bool(fw),  # noqa: E731
                    "positions": [s.positions for s in snaps.snapshots] if N <= 14 else "omitted", "lists": lists if N <= 14 else "omitted"}
    key = f"boo_3d/l{l}" if l > 10 else "boo_3d"
    if bigsys:
        ctx.count("systems_beyond_usual_size")
    if rng.random() < 0.3:
        # history: the same trajectory and files analysed immediately before with ANOTHER degree (a scan over l), or another mask
        lo_ = l + 1 if l < 12 else l - 1
        if rng.random() < 0.7:
            okp, bp = ctx.call(key + "/prior_object", boo_3d, snaps, lo_, fn, fw, ppp, Nmax, data=info)
        else:
            okp, bp = ctx.call(key + "/prior_object", boo_3d, snaps, l, fn, fw, 1 - ppp if (1 - ppp).any() else ppp, Nmax, data=info)
        if okp:
            ctx.call(key + "/prior_object", bp.ql_Ql, False, None, data=info)
        ctx.count("prior_object_one_argument_changed")
    ok, b = ctx.call(key, boo_3d, snaps, l, fn, fw, ppp, Nmax, data=info)
    ctx.case(f"{nlkind}/{'weighted' if fw else 'plain'}/{cellkind}/l{'>10' if l > 10 else '<=10'}", snaps.snapshots[0].positions, lists[0], l, nontrivial=True,
             sample={"l": l, "neighbours": nlkind, "weights": bool(fw), "N": N, "T": T, "cell": cellkind, "ppp": ppp})
    if fw:
        ctx.count("weighted_cases")
    if not ok:
        return
    q = np.zeros((T, N, 2 * l + 1), dtype=complex)
    Q = np.zeros_like(q)
    for t in range(T):
        q[t], Q[t], mb = ref_qlm(snaps.snapshots[t].positions, Hs[t], ppp, lists[t], weights[t] if weights else None, l)
        if mb >= ra:
            ctx.skip("qlm")
            return
    if not ctx.close("qlm", np.asarray(b.smallqlm), q, key + "/qlm", rtol=0, atol=1e-10, what="q_lm (weight-normalised mean of Y_lm over bonds)", data=info):
        return
    ctx.close("Qlm", np.asarray(b.largeQlm), Q, key + "/Qlm", rtol=0, atol=1e-10, what="coarse-grained Q_lm", data=info)
    cg = bool(rng.random() < 0.5)
    src = Q if cg else q
    tag = "/coarse" if cg else "/local"
    s2 = (np.abs(src) ** 2).sum(axis=2)
    twice = bool(rng.random() < 0.25)     # history: every method asked twice in a row on the object; the second answer is monitored
    if twice:
        ctx.count("methods_called_twice")

    def rep(f):
        def g(*a):
            r_ = f(*a)
            return f(*a) if twice else r_
        return g
    ext = str(rng.choice([".npy", ".dat", ".txt"]))
    fq = os.path.join(wd, "ql" + ext) if rng.random() < 0.3 else None
    ok, ql = ctx.call("boo_3d.ql_Ql", rep(b.ql_Ql), cg, fq, data=info)
    if ok and fq:
        files_match(ctx, fq, np.asarray(ql), "boo_3d.ql_Ql/file", info)
    if ok:
        ctx.close("ql", np.asarray(ql), np.sqrt(4 * np.pi / (2 * l + 1) * s2), "boo_3d.ql_Ql" + tag, rtol=1e-10, atol=1e-12, what="q_l", data=info)
        ctx.check("ql_bounds", bool(np.all(np.asarray(ql) >= 0) and np.all(np.asarray(ql) <= 1 + 1e-10)), "boo_3d.ql_Ql/bounds", lambda: f"q_l outside [0,1]: max {np.max(ql)}", info)
    fw1, fw2 = (os.path.join(wd, "w" + ext), os.path.join(wd, "wcap" + ext)) if rng.random() < 0.3 else (None, None)
    ok, ww = ctx.call("boo_3d.w_W_cap", rep(b.w_W_cap), cg, fw1, fw2, data=info)
    if ok and fw1:
        files_match(ctx, fw1, np.asarray(ww[0]), "boo_3d.w_W_cap/file_w", info)
        files_match(ctx, fw2, np.asarray(ww[1]), "boo_3d.w_W_cap/file_wcap", info)
    if ok:
        wref = wigner.w_l(src, l)
        ctx.close("w", np.asarray(ww[0]), wref, "boo_3d.w_W_cap/w" + tag, rtol=1e-9, atol=1e-12, scale=max(1e-6, np.abs(wref).max()), what="w_l", data=info)
        nd = s2 > 1e-12          # degenerate normaliser (q_lm = 0, e.g. odd l with a mutual single bond): w-hat undefined
        ctx.skip("wcap", int((~nd).sum()))
        ctx.close("wcap", np.asarray(ww[1])[nd], (wref / np.where(nd, s2, 1.0) ** 1.5)[nd], "boo_3d.w_W_cap/wcap" + tag, rtol=1e-9, atol=1e-10, what="w-hat_l", data=info)
    c = float(rng.uniform(0.0, 0.95))
    ok, sres = ctx.call("boo_3d.sij_ql_Ql", rep(b.sij_ql_Ql), cg, c, None, None, data=info)
    if ok:
        good = isinstance(sres, list) and len(sres) == T
        if ctx.check("sij", good, "boo_3d.sij_ql_Ql/layout", "expected one array per frame", info):
            for t in range(T):
                arr = np.asarray(sres[t])
                nrm = np.sqrt(s2[t])
                okk = arr.shape[0] == N and np.array_equal(arr[:, 0], np.arange(1, N + 1)) and np.array_equal(arr[:, 1], [len(x) for x in lists[t]])
                mx = 0.0
                for i in range(N):
                    js = lists[t][i]
                    exp = np.real((src[t, i][None, :] * np.conj(src[t, js])).sum(axis=1)) / (nrm[i] * nrm[js])
                    got = arr[i, 2:2 + len(js)]
                    if got.shape != exp.shape:
                        okk = False
                        break
                    nd = (nrm[js] > 1e-6) & (nrm[i] > 1e-6)       # s_ij undefined for a vanishing q_lm vector
                    if not nd.all():
                        ctx.skip("sij", int((~nd).sum()))
                    if not nd.any():
                        continue
                    got, exp = got[nd], exp[nd]
                    mx = max(mx, float(np.abs(got - exp).max()))
                    if os.environ.get("VMON_DEBUG") and np.abs(got - exp).max() > 1e-5:
                        print("DEBUG sij", t, i, js, got, exp, nrm[i], nrm[js])
                    if arr[i, 2 + len(js):].any():
                        okk = False
                ctx.check("sij", okk and mx <= 2e-6, "boo_3d.sij_ql_Ql/values" + tag, lambda: f"frame {t}: s_ij differ by {mx:.3g} or layout wrong", info)
                if nrm.min() > 1e-6:
                    ctx.check("sij_bounds", bool(np.all(np.abs(arr[:, 2:]) <= 1 + 2e-6)), "boo_3d.sij_ql_Ql/bounds", "|s_ij| > 1", info)
        # thresholded count through the csv (the only place it is observable)
        ok2, tab = ctx.call("boo_3d.sij_ql_Ql", b.sij_ql_Ql, cg, c, os.path.join(wd, "sum.csv"), os.path.join(wd, "sij.txt"), data=info)
        if ok2 and good:
            # with an output file the routine returns (and writes) ONE table for all frames: every particle's row must hold all of its s_ij
            tab = np.asarray(tab)
            cnmax = max(len(x) for ll in lists for x in ll)
            okt = tab.ndim == 2 and tab.shape == (T * N, 2 + cnmax)
            if okt:
                for t in range(T):
                    a_ = np.asarray(sres[t])
                    for i in range(N):
                        k_ = len(lists[t][i])
                        row = tab[t * N + i]
                        okt &= bool(row[0] == i + 1 and row[1] == k_ and np.array_equal(row[2:2 + k_], a_[i, 2:2 + k_]) and not row[2 + k_:].any())
            ctx.check("sij_table", bool(okt), "boo_3d.sij_ql_Ql/table" + tag,
                      lambda: f"table returned with an output file: shape {tab.shape}, expected {(T * N, 2 + cnmax)} with every particle's s_ij in its row", info)
            try:
                txt = np.loadtxt(os.path.join(wd, "sij.txt"), skiprows=1, ndmin=2)
                ctx.check("sij_table", txt.shape == tab.shape and bool(np.all(np.abs(txt - tab) <= 0.5000001e-6)), "boo_3d.sij_ql_Ql/file" + tag,
                          lambda: f"sij text file (shape {txt.shape}) differs from the returned table (shape {tab.shape}) beyond %.6f", info)
            except Exception as e:  # noqa: BLE001
                ctx.check("sij_table", False, "boo_3d.sij_ql_Ql/file" + tag, f"sij text file unreadable: {e!r}", info)
        if ok2:
            import pandas as pd
            df = pd.read_csv(os.path.join(wd, "sum.csv"))
            expc, tie = [], False
            for t in range(T):
                nrm = np.sqrt(s2[t])
                for i in range(N):
                    js = lists[t][i]
                    if nrm[i] < 1e-6 or np.any(nrm[js] < 1e-6):
                        tie = True
                        continue
                    sv = np.real((src[t, i][None, :] * np.conj(src[t, js])).sum(axis=1)) / (nrm[i] * nrm[js])
                    tie |= bool(np.any(np.abs(sv - c) < 1e-5))
                    expc.append([i + 1, int((sv > c).sum()), len(js)])
            if tie:
                ctx.skip("sij_count")
            else:
                ctx.check("sij_count", df.shape == (T * N, 3) and np.array_equal(df.values.astype(int), np.array(expc)), "boo_3d.sij_ql_Ql/count" + tag,
                          "thresholded bond count (id, sum_sij, num_neighbors) differs", info)
    # spatial correlation
    if rng.random() < 0.5:
        Lmin = float(np.diag(H).min())
        w = Lmin / 2 / float(rng.uniform(6, 14))
        if abs(Lmin / 2 / w - round(Lmin / 2 / w)) < 1e-6:
            w *= 1.001
        gfile = os.path.join(wd, "gl.csv") if rng.random() < 0.4 else ""
        ok, sc = ctx.call("boo_3d.spatial_corr", b.spatial_corr, cg, w, gfile, data=info)
        if ok and gfile:
            csv_matches(ctx, gfile, sc, "boo_3d.spatial_corr/csv", info)
        if ok:
            nb = int(Lmin / 2.0 / w)
            V = abs(np.linalg.det(H))
            vs = rgr.shell(3, w, nb)
            acc_lo, acc_hi = np.zeros(nb), np.zeros(nb)
            off = ~np.eye(N, dtype=bool)
            relaxed = np.zeros(nb, dtype=bool)
            for t in range(T):
                _v, dist, _ = geom.pair_table(snaps.snapshots[t].positions, Hs[t], ppp)
                Wm = np.real(np.einsum("ia,ja->ij", np.conj(src[t]), src[t]))
                lo, hi, rel = rgr.histogram_interval(dist[off], w, nb, weights=Wm[off])
                acc_lo += lo
                acc_hi += hi
                relaxed |= rel
            norm = V / (N * N) / vs / T
            compare = np.ones(nb, dtype=bool) if geom.is_orthogonal(H) else (np.arange(nb) + 1) * w <= ra
            obs = sc["gA"].values
            ok_any = False
            for const in (1.0, 4 * np.pi / (2 * l + 1)):
                lo_, hi_ = acc_lo * norm * const, acc_hi * norm * const
                scl = max(1e-12, np.abs(hi_).max(), np.abs(lo_).max())
                if len(obs) == nb and np.all(~compare | ((obs >= lo_ - 1e-9 * scl) & (obs <= hi_ + 1e-9 * scl))):
                    ok_any = True
            ctx.check("spatial_corr", ok_any, "boo_3d.spatial_corr" + tag, "spatial correlation differs from the frame-averaged bond-order-weighted pair histogram", info)
    if T >= 2:
        dt = 0.002
        tfile = os.path.join(wd, "gt.csv") if rng.random() < 0.4 else ""
        ok, tc = ctx.call("boo_3d.time_corr", b.time_corr, cg, dt, tfile, data=info)
        if ok and tfile:
            csv_matches(ctx, tfile, tc, "boo_3d.time_corr/csv", info)
        if ok:
            tref, cref, _ = ref_corr(src, np.array(ts[:T]), dt)
            ctx.close("time_corr", tc["time_corr"].values, cref, "boo_3d.time_corr" + tag, rtol=1e-9, atol=1e-12, what="time correlation of q_lm", data=info)
            ctx.close("time_corr", tc["t"].values, tref, "boo_3d.time_corr/t", rtol=1e-12, atol=1e-15, what="time axis", data=info, n=1)
    # equal weights reproduce the unweighted result
    if not fw and rng.random() < 0.5:
        fe = os.path.join(wd, "eq.dat")
        cst = float(rng.uniform(0.3, 4.0))
        with open(fe, "w") as f:
            for t in range(T):
                f.write("id   cn   facearealist\n")
                for i in range(N):
                    f.write(" ".join([str(i + 1), str(len(lists[t][i]))] + ["%.6f" % cst] * len(lists[t][i])) + "\n")
        ok, b2 = ctx.call(key, boo_3d, snaps, l, fn, fe, ppp, Nmax, data=info)
        if ok:
            ctx.close("equal_weights", np.asarray(b2.smallqlm), np.asarray(b.smallqlm), "boo_3d/equal_weights", rtol=0, atol=1e-12, what="equal weights vs no weights", data=info, n=1)
    for f in os.listdir(wd):
        os.remove(os.path.join(wd, f))


def run(ctx):
    from ..harness import fresh_dir, drop_dir
    wd = fresh_dir("c09")
    kinds = ["fcc", "hcp", "bcc14", "bcc8", "sc", "ico"]
    for k, kind in enumerate(kinds):
        if ctx.tier == "thorough" or k % ctx.nshards == ctx.shard:
            case_crystal(ctx, ctx.rng(), wd, kind)
    n = ctx.n(220, 150)
    for i in range(n):
        case_random(ctx, ctx.rng(), wd, l=[2, 3, 4, 5, 6, 7, 8, 9, 10, 11, 12][(i * ctx.nshards + ctx.shard) % 11] if i < 6 else None)
        if ctx.out_of_time():
            break
    drop_dir(wd)
