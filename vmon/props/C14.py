"""C14 — time correlation equals the origin-averaged normalised autocorrelation."""
from __future__ import annotations

import os

import numpy as np

from ..gen import config as gc

SPEC = {
    "quick_procs": 1, "thorough_procs": 16, "timeout_quick": 300, "timeout_thorough": 1500,
    "anchors": ["PyMatterSim.dynamic.time_corr:time_correlation"],
    "must_reach": ["PyMatterSim.dynamic.time_corr:time_correlation"],
    "floors": {"values": 2000, "time_axis": 300, "lag_zero": 300, "csv": 20},
    "insitu": (),
    "rule": ("series of shape (T,N), (T,N,d), (T,N,d,d), real and complex, T 1..10, N 1..30, evenly and unevenly spaced "
             "timesteps, series kinds {white, persistent, sign-flipping}; non-trivial = T>=3 and N>=2; distinct = digest of "
             "(series, timesteps)"),
    "assumptions": ["tensor 'product' = trace of the matrix product (documented form); general (non-symmetric) tensors are "
                    "compared against exactly that form", "the lag-zero normaliser is non-zero (series not identically zero)"],
}


def ref_corr(A, ts, dt):
    # the definition is over the reals / complex numbers: narrow integer series are widened first (the reference itself overflowed in
    # int8 before this line existed -- a harness error seen with VERIF_SEED=2, 3, 7, not a defect of the code)
    A = np.asarray(A, dtype=np.complex128 if np.iscomplexobj(A) else np.float64)
    T = A.shape[0]
    linear = T >= 2 and len(set(np.diff(ts).tolist())) == 1
    rank = A.ndim - 2

    def prod(X, Y):  # X later, Y earlier
        if rank < 2:
            return float(np.real(np.sum(X * np.conj(Y))))
        return float(np.real(np.einsum("iab,iba->", X, np.conj(Y))))

    C = np.zeros(T)
    if linear:
        for k in range(T):
            C[k] = np.mean([prod(A[t0 + k], A[t0]) for t0 in range(T - k)])
    else:
        for k in range(T):
            C[k] = prod(A[k], A[0])
    return (np.asarray(ts) - ts[0]) * dt, C / C[0], linear


def make_series(rng, T, N, rank, d, cplx, kind, sym):
    shape = (T, N) + (d,) * rank
    def noise():
        x = rng.normal(size=shape)
        if cplx:
            x = x + 1j * rng.normal(size=shape)
        return x
    if kind == "white":
        A = noise()
    elif kind == "persistent":
        A = np.cumsum(noise() * 0.3, axis=0) + (rng.normal(size=shape[1:]) * 2)[None]
    else:
        base = rng.normal(size=shape[1:]) + (1j * rng.normal(size=shape[1:]) if cplx else 0)
        A = base[None] * ((-1.0) ** np.arange(T)).reshape((T,) + (1,) * (len(shape) - 1)) + 0.1 * noise()
    if rank == 2 and sym:
        A = 0.5 * (A + np.swapaxes(A, -1, -2))
    if cplx:
        A = A.astype(np.complex128)
    return A


def run(ctx):
    from PyMatterSim.dynamic.time_corr import time_correlation
    from ..harness import fresh_dir, drop_dir
    wd = fresh_dir("c14")
    SingleSnapshot, Snapshots = gc.records()
    n = ctx.n(1200, 1500)
    for i in range(n):
        rng = ctx.rng()
        T = int(rng.choice([1, 2, 3, 4, 5, 6, 8, 10, 3, 6, 17, 40]))
        N = int(rng.integers(1, 31)) if i % 25 else int(rng.integers(100, 400))
        if i % 97 == 5:
            T, N = int(rng.choice([130, 150, 257])), int(rng.integers(1, 6))      # more than 128 / 256 time origins per lag
            ctx.count("series_over_128_frames")
        rank = int(rng.choice([0, 1, 2]))
        d = int(rng.choice([2, 3]))
        cplx = bool(rng.random() < 0.45)
        sym = bool(rng.random() < 0.6)
        kind = str(rng.choice(["white", "persistent", "flip"]))
        spacing = str(rng.choice(["linear", "linear", "uneven"]))
        t0 = int(rng.choice([0, 5, 1000, 123456]))
        if spacing == "linear" or T < 3:
            step = int(rng.choice([1, 10, 500]))
            ts = t0 + step * np.arange(T)
        else:
            inc = rng.integers(1, 6, size=T - 1)
            if len(set(inc.tolist())) == 1:
                inc[-1] += 1
            ts = t0 + np.concatenate([[0], np.cumsum(inc)]) * int(rng.choice([1, 100]))
        dt = float(rng.choice([0.002, 0.005, 1.0]))
        if i % 4 == 0:
            dt = float(10.0 ** rng.uniform(-15, 3))        # any time step: SI seconds (1e-15) up to coarse-grained units
        A = make_series(rng, T, N, rank, d, cplx, kind, sym)
        # the same values in other in-memory representations (read-only, strided view, Fortran order, integer-valued series)
        lay = ["copy", "copy", "copy", "readonly", "strided", "fortran", "int"][(T * 5 + N * 3 + rank + i) % 7]
        if lay == "int" and not cplx:
            if (T + N) % 2:
                A = np.rint(3 * A).astype(np.int64)
            else:
                A = np.clip(np.rint(A), -1, 1).astype(np.int8)      # an indicator / spin series stored in one byte
            if not (A[0] != 0).any():
                A[0].flat[0] = 1
        snaps = Snapshots(nsnapshots=T, snapshots=[
            SingleSnapshot(timestep=int(t), nparticle=N, particle_type=np.ones(N, dtype=int), positions=np.zeros((N, d)),
                           boxlength=np.ones(d), boxbounds=np.zeros((d, 2)), realbounds=None, hmatrix=np.eye(d)) for t in ts])
        outfile = os.path.join(wd, "tc.csv") if rng.random() < 0.15 else ""
        tref, cref, linear = ref_corr(A, ts, dt)
        if not np.isfinite(cref).all():
            continue
        cls = f"rank{rank}/{'complex' if cplx else 'real'}/{'linear' if linear else 'single-origin'}" + \
              ("" if rank < 2 else ("/sym" if sym else "/general"))
        info = lambda: {"class": cls, "timesteps": ts, "dt": dt, "series": A if A.size <= 400 else "omitted", "kind": kind}  # noqa: E731
        key = f"time_correlation/rank{rank}/{'linear' if linear else 'log'}"
        Ain = A.copy()
        if lay == "readonly":
            Ain.setflags(write=False)
        elif lay == "strided":
            big = np.zeros((T, 2 * N + 1) + A.shape[2:], dtype=A.dtype)
            big[:, 1::2] = A
            Ain = big[:, 1::2]
        elif lay == "fortran":
            Ain = np.asfortranarray(A)
        if T >= 3 and rng.random() < 0.3:
            # history: another trajectory with the same number of frames and the same first and last timestep, but other frames in
            # between (evenly <-> unevenly spaced), analysed immediately before; also the same trajectory with another time step
            ts2 = np.array(ts).copy()
            mid = np.sort(rng.choice(np.arange(int(ts[0]) + 1, max(int(ts[-1]), int(ts[0]) + T)), size=T - 2, replace=False)) if int(ts[-1]) - int(ts[0]) > T else ts2[1:-1]
            ts2[1:-1] = mid
            snaps2 = Snapshots(nsnapshots=T, snapshots=[
                SingleSnapshot(timestep=int(t), nparticle=N, particle_type=np.ones(N, dtype=int), positions=np.zeros((N, d)),
                               boxlength=np.ones(d), boxbounds=np.zeros((d, 2)), realbounds=None, hmatrix=np.eye(d)) for t in ts2])
            ctx.call(key + "/prior_call", time_correlation, snaps2, Ain, dt, "", data=info)
            ctx.call(key + "/prior_call", time_correlation, snaps, Ain, dt * 3.0, "", data=info)
            ctx.count("prior_call_one_argument_changed")
        ok, res = ctx.call(key, time_correlation, snaps, Ain, dt, outfile, data=info)
        ctx.count("layout_" + lay)
        if ok:
            ctx.check("input_untouched", np.array_equal(np.asarray(Ain), A), key + "/input_modified", "the series handed over was modified", info)
        ctx.case(cls, A, ts, nontrivial=T >= 3 and N >= 2,
                 sample={"shape": A.shape, "complex": cplx, "timesteps": ts, "dt": dt, "kind": kind})
        if not ok:
            continue
        good = list(res.columns) == ["t", "time_corr"] and len(res) == T
        if not ctx.check("values", good, key + "/layout", lambda: f"columns {list(res.columns)} rows {len(res)}", info):
            continue
        ctx.close("time_axis", res["t"].values, tref, key + "/time_axis", rtol=1e-12, atol=1e-15, what="time axis", data=info, n=1)
        ctx.close("values", res["time_corr"].values, cref, key + "/values", rtol=1e-10, atol=1e-12, scale=max(1.0, np.abs(cref).max()),
                  what="time correlation", data=info)
        ctx.check("lag_zero", res["time_corr"].values[0] == 1.0, key + "/lag_zero",
                  lambda: f"value at lag zero is {res['time_corr'].values[0]!r}, not exactly 1", info)
        if outfile:
            import pandas as pd
            back = pd.read_csv(outfile)
            ok2 = back.shape == res.shape and bool(np.all(np.abs(back.values - res.values) <= 0.5e-8 + 1e-12 * np.abs(res.values)))
            ctx.check("csv", ok2, key + "/csv", "CSV differs from returned values beyond %.8f", info)
            os.remove(outfile)
    drop_dir(wd)
