"""C04 — S(q): every total and partial column equals the density-mode definition."""
from __future__ import annotations

import itertools
import math
import os

import numpy as np

from ..gen import config as gc

SPEC = {
    "quick_procs": 1, "thorough_procs": 16, "timeout_quick": 400, "timeout_thorough": 2400,
    "anchors": ["PyMatterSim.static.sq:sq.__init__", "PyMatterSim.static.sq:sq.unary", "PyMatterSim.static.sq:sq.binary",
                "PyMatterSim.static.sq:sq.ternary", "PyMatterSim.static.sq:sq.quarternary", "PyMatterSim.static.sq:sq.quinary",
                "PyMatterSim.utils.wavevector:choosewavevector"],
    "must_reach": ["PyMatterSim.static.sq:sq.unary", "PyMatterSim.static.sq:sq.binary", "PyMatterSim.static.sq:sq.ternary",
                   "PyMatterSim.static.sq:sq.quarternary", "PyMatterSim.static.sq:sq.quinary",
                   "PyMatterSim.utils.wavevector:choosewavevector"],
    "floors": {"columns": 1000, "layout": 200, "sum_rule": 100, "nonnegative": 100, "default_qset": 60, "qvector_csv": 20, "relabelled_in_place": 20, "single_precision_coordinates": 20, "default_qset_large_ranges": 1},
    "insitu": (),
    "rule": ("configurations as C03 (orthogonal boxes with deliberately unequal edges) x K=1..6 x qrange x explicit integer "
             "lists (negative components, repeated |q|) x onlypositive in {False,True,'x','y','z'} x 1..4 frames x N 2..60; "
             "non-trivial = N>=3 and at least 3 wave vectors; distinct = digest of (positions, types, box, q list)"),
    "assumptions": ["documented default range taken as the half-open integer range [-floor(numofq/2), floor(numofq/2)) "
                    "(code, buffer size and golden tests agree; DESIGN.md C04)",
                    "cases whose distinct |q| values are closer than 1e-4 are not compared (grouping would be a tie)",
                    "per-vector rounding to 1e-6 is not replicated: the group mean must lie within 0.5e-6 of the unrounded mean"],
}


def expected_default_set(d, numofq, onlypositive):
    nhalf = int(numofq / 2)
    out = []
    for n in itertools.product(range(-nhalf, nhalf), repeat=d):
        s = sum(v * v for v in n)
        if s == 0:
            continue
        r = math.isqrt(s)
        if r * r != s:
            continue
        out.append(n)
    if onlypositive is True:
        out = [n for n in out if all(v >= 0 for v in n)]
    elif onlypositive in ("x", "y", "z"):
        ax = "xyz".index(onlypositive)
        out = [n for n in out if n[ax] > 0 and all(v == 0 for k, v in enumerate(n) if k != ax)]
    return out


def reference(frames_pos, types, L, nvec):
    """returns dict col -> per-vector unrounded values, and |q| per vector"""
    types_f = [np.asarray(t) for t in types] if isinstance(types, list) else [np.asarray(types)] * len(frames_pos)
    types = types_f[0]
    N = len(types)
    species = np.unique(types)
    K = len(species)
    q = 2 * np.pi * np.asarray(nvec, float) / np.asarray(L)[None, :]
    qn = np.sqrt((q ** 2).sum(axis=1))
    cols = {"Sq": np.zeros(len(q))}
    pairs = []
    if 2 <= K <= 5:
        pairs = [(a, a) for a in range(1, K + 1)] + [(a, b) for a in range(1, K + 1) for b in range(a + 1, K + 1)]
        for a, b in pairs:
            cols[f"Sq{a}{b}"] = np.zeros(len(q))
    for pos, types in zip(frames_pos, types_f):
        ph = np.exp(-1j * (pos @ q.T))            # (N, M)
        rho = ph.sum(axis=0)
        cols["Sq"] += (rho * rho.conj()).real / N
        rhos = {a: ph[types == a].sum(axis=0) for a in range(1, K + 1)} if pairs else {}
        for a, b in pairs:
            na, nb_ = (types == a).sum(), (types == b).sum()
            cols[f"Sq{a}{b}"] += (rhos[a] * rhos[b].conj()).real / math.sqrt(na * nb_)
    for c in cols:
        cols[c] /= len(frames_pos)
    return cols, qn


def one_case(ctx, rng, wd, K=None, mode=None, force_N=None):
    from PyMatterSim.static.sq import sq
    K = K or int(rng.choice([1, 2, 2, 3, 3, 4, 4, 5, 5, 6]))
    frames = int(rng.choice([1, 1, 2, 4]))
    d = int(rng.choice([2, 3]))
    retype = bool(frames > 1 and rng.random() < 0.35)
    if force_N:
        frames, retype = 1, False
    snaps, inf, cell = gc.static_system(rng, d=d, K=K, N=force_N, cellkind="ortho", frames=frames, nmin=max(2, K), nmax=60, retype=retype,
                                        big="xl" if ctx.thorough else True, poskind="gas" if force_N else None)
    L = np.diag(cell["H"]).copy()
    almost_cubic = False
    if (inf["N"] + frames + K) % 9 == 0:
        # an almost cubic cell (NPT output, edges differing by 1e-5 .. 1e-4 relative): wave vectors that would be equivalent in a cubic
        # cell have DIFFERENT |q| here (by more than the documented 1e-6), so they are separate rows
        almost_cubic = True
        delta = np.array([0.0, 1.0, -0.7][:d]) * 10.0 ** rng.uniform(-5.5, -4.0)
        Lnew = L[0] * (1.0 + delta)
        SingleSnapshot, Snapshots = gc.records()
        new = []
        for s_ in snaps.snapshots:
            fr_ = (s_.positions - s_.boxbounds[:, 0]) / L
            lo_ = s_.boxbounds[:, 0].copy()
            new.append(SingleSnapshot(timestep=s_.timestep, nparticle=s_.nparticle, particle_type=s_.particle_type, positions=lo_ + fr_ * Lnew,
                                      boxlength=Lnew.copy(), boxbounds=np.column_stack([lo_, lo_ + Lnew]), realbounds=None, hmatrix=np.diag(Lnew)))
        snaps = Snapshots(nsnapshots=len(new), snapshots=new)
        L = Lnew.copy()
        ctx.count("almost_cubic_cells")
    if (inf["N"] + 2 * frames + K) % 7 == 0 and not force_N:
        # coordinates in SINGLE precision (what the HOOMD / GSD reader hands over: gsd stores float32).  The density modes are sums of
        # exp(-i q.r) with q in double precision: the definition applies to the float32 values as they are (promoted exactly to double)
        SingleSnapshot, Snapshots = gc.records()
        snaps = Snapshots(nsnapshots=snaps.nsnapshots, snapshots=[
            SingleSnapshot(timestep=s_.timestep, nparticle=s_.nparticle, particle_type=s_.particle_type, positions=np.asarray(s_.positions).astype(np.float32),
                           boxlength=s_.boxlength, boxbounds=s_.boxbounds, realbounds=None, hmatrix=s_.hmatrix) for s_ in snaps.snapshots])
        ctx.count("single_precision_coordinates")
    types = snaps.snapshots[0].particle_type
    Kreal = len(np.unique(types))
    N = inf["N"]
    mode = mode or str(rng.choice(["default", "default", "explicit"]))
    kwargs = {}
    onlypos = False
    if mode == "default":
        onlypos = [False, False, True, "x", "y", "z"][int(rng.integers(0, 6))]
        if onlypos == "z" and d == 2:
            onlypos = "y"
        target = rng.uniform(4.2, 12.8 if d == 3 else 30.8)
        if abs(target - round(target)) < 1e-3:
            target += 0.01
        qrange = target * np.pi / L.max()
        numofq = int(qrange * 2.0 / (2 * np.pi / L).min())
        nvec = expected_default_set(d, numofq, onlypos)
        kwargs = {"qrange": qrange, "onlypositive": onlypos}
        if not nvec:
            return
    else:
        M = int(rng.integers(3, 40))
        cand = rng.integers(-6, 7, size=(M, d))
        cand = cand[(cand != 0).any(axis=1)]
        if rng.random() < 0.5 and len(cand) > 2:          # repeated |q| through sign flips / permutations
            extra = cand[: len(cand) // 2] * rng.choice([-1, 1], size=(len(cand) // 2, d))
            cand = np.vstack([cand, extra])
        cand = np.unique(cand, axis=0)
        cand = cand[rng.permutation(len(cand))]
        nvec = [tuple(int(v) for v in row) for row in cand]
        qarr = np.array(nvec, dtype=np.int64)
        qrep = ["int64", "int64", "int32", "readonly", "fortran", "strided"][(len(nvec) + N) % 6]
        if qrep == "int32":
            qarr = qarr.astype(np.int32)
        elif qrep == "readonly":
            qarr.setflags(write=False)
        elif qrep == "fortran":
            qarr = np.asfortranarray(qarr)
        elif qrep == "strided":
            big = np.zeros((len(nvec), 2 * d), dtype=np.int64)
            big[:, ::2] = qarr
            qarr = big[:, ::2]
        kwargs = {"qvector": qarr}
        if rng.random() < 0.4:
            # the direction option only shapes the DEFAULT set; a supplied list is used as supplied, whatever the option says
            kwargs["onlypositive"] = [True, "x", "y"][int(rng.integers(0, 3))]
            ctx.count("explicit_list_with_direction_option")
    save = rng.random() < 0.35
    outfile = os.path.join(wd, "sq_out.csv") if (save or rng.random() < 0.2) else None
    info = lambda: {"d": d, "N": N, "K": Kreal, "L": L, "frames": frames, "mode": mode, "onlypositive": onlypos,  # noqa: E731
                    "kwargs": {k: v for k, v in kwargs.items()}, "types": [s.particle_type for s in snaps.snapshots], "retyped_between_frames": retype,
                    "positions": [s.positions for s in snaps.snapshots] if N <= 30 else "omitted(N>30)"}
    key = f"sq/K{min(Kreal, 6)}"
    if mode == "default" and rng.random() < 0.4:
        # history: the same trajectory (same box, same range) analysed with ANOTHER direction option immediately before
        other = [o for o in ([False, True, "x", "y"] + (["z"] if d == 3 else [])) if o != onlypos]
        oth = other[int(rng.integers(0, len(other)))]
        if expected_default_set(d, numofq, oth):
            ctx.call(key + "/prior_call", lambda: sq(snaps, qrange=qrange, onlypositive=oth).getresults(), data=info)
            ctx.count("prior_call_other_option")
    again = bool(rng.random() < 0.3)      # history: the SAME object asked twice (a re-run notebook cell); the second answer is monitored

    def go():
        obj = sq(snaps, saveqvectors=save, outputfile=outfile, **kwargs)
        r = obj.getresults()
        if again:
            ctx.count("second_call_on_same_object")
            r = obj.getresults()
        return r
    ok, res = ctx.call(key + ("/second_call" if again else ""), go, data=info)
    ctx.case(f"K{Kreal}/{d}D/{mode}/{onlypos}", snaps.snapshots[0].positions, types, L, np.array(nvec),
             nontrivial=N >= 3 and len(nvec) >= 3,
             sample={"N": N, "K": Kreal, "d": d, "L": L, "mode": mode, "onlypositive": onlypos, "n_qvectors": len(nvec),
                     "first_qvectors": nvec[:5], "frames": frames})
    if not ok:
        return
    if res is None:
        ctx.violation(key + "/none", "getresults returned None", info())
        return
    if mode == "explicit":
        ctx.check("qvector_untouched", np.array_equal(np.asarray(kwargs["qvector"]), np.array(nvec)), key + "/qvector_modified",
                  "the caller's wave-vector array was modified", info)
    ref, qn = reference([np.asarray(s.positions, dtype=np.float64) for s in snaps.snapshots], [s.particle_type for s in snaps.snapshots], L, nvec)
    # --- direct check of the wave-vector set / per-vector values through the _qvectors.csv
    if save:
        import pandas as pd
        pth = outfile[:-4] + "_qvectors.csv"
        try:
            qv = pd.read_csv(pth)
            ctx.check("qvector_csv", list(qv.columns)[:d] == [f"q{i}" for i in range(d)] and not any(str(c).startswith("Unnamed") for c in qv.columns),
                      key + "/qvector_file_layout", lambda: f"_qvectors.csv has columns {list(qv.columns)}: expected q0.. first and no index column", info)
            got = sorted(tuple(int(round(v)) for v in row) for row in qv[[f"q{i}" for i in range(d)]].values)
            ctx.check("qvector_csv", got == sorted(nvec), key + "/qvector_set",
                      lambda: f"saved wave-vector set differs from the documented set: {len(got)} vs {len(nvec)} vectors; "
                              f"missing {sorted(set(nvec) - set(got))[:4]} extra {sorted(set(got) - set(nvec))[:4]}", info)
            if got == sorted(nvec):
                order = {v: i for i, v in enumerate(nvec)}
                idx = [order[tuple(int(round(v)) for v in row)] for row in qv[[f"q{i}" for i in range(d)]].values]
                for c in ref:
                    if c in qv.columns:
                        ctx.close("qvector_csv", qv[c].values, ref[c][idx], key + "/pervector", rtol=1e-9, atol=0.5e-6 + 1e-12,
                                  what=f"per-vector {c}", data=info, n=1)
        except FileNotFoundError:
            ctx.violation(key + "/qvector_file", "saveqvectors=True wrote no _qvectors.csv", info())
    # --- grouping by |q|
    # rows = sets of wave vectors of EQUAL |q| (equal up to float round-off, 1e-9); the code distinguishes |q| at the documented 1e-6, so
    # the row structure is unambiguous when every gap between distinct values exceeds 2.5e-6 (a rounding boundary cannot merge them);
    # anything between round-off and that is a tie (R1) and the case is not compared
    order_q = np.argsort(qn)
    srt = qn[order_q]
    gaps = np.diff(srt)
    if np.any((gaps > 1e-9 * max(1.0, srt[-1])) & (gaps < 2.5e-6)):
        ctx.skip("columns")
        return
    cuts = np.nonzero(gaps >= 2.5e-6)[0] + 1
    groups = [order_q[g] for g in np.split(np.arange(len(qn)), cuts)]
    uq = np.array([qn[g].mean() for g in groups])
    if almost_cubic:
        ctx.count("almost_cubic_compared")
    exp_cols = ["q"] + list(ref.keys())
    if not ctx.check("layout", list(res.columns) == exp_cols and len(res) == len(uq), key + "/layout",
                     lambda: f"columns {list(res.columns)} rows {len(res)}; expected {exp_cols} rows {len(uq)}", info):
        return
    if mode == "default":
        ctx.count("default_qset")
    ctx.close("columns", res["q"].values, np.array([qn[g].mean() for g in groups]), key + "/q", rtol=0, atol=1e-6,
              what="|q| column", data=info, n=1)
    for c in ref:
        exp = np.array([ref[c][g].mean() for g in groups])
        ctx.close("columns", res[c].values, exp, key + "/column", rtol=1e-9, atol=0.5e-6 + 1e-12, scale=max(1.0, np.abs(exp).max()),
                  what=f"column {c}", data=lambda c=c: {**info(), "column": c})
    # --- oracle-free consequences on the outputs
    if 2 <= Kreal <= 5:
        cnt = {a: int((types == a).sum()) for a in range(1, Kreal + 1)}
        rhs = np.zeros(len(res))
        bud = 0.0
        for a in range(1, Kreal + 1):
            rhs += cnt[a] * res[f"Sq{a}{a}"].values
            bud += cnt[a]
            for b in range(a + 1, Kreal + 1):
                rhs += 2 * math.sqrt(cnt[a] * cnt[b]) * res[f"Sq{a}{b}"].values
                bud += 2 * math.sqrt(cnt[a] * cnt[b])
            ctx.check("nonnegative", np.all(res[f"Sq{a}{a}"].values >= -0.5e-6), key + "/nonnegative",
                      f"Sq{a}{a} negative", info)
        ctx.close("sum_rule", N * res["Sq"].values, rhs, key + "/sumrule", rtol=1e-9, atol=0.5e-6 * (N + bud) + 1e-9,
                  what="N*S != sum_a N_a S_aa + 2 sum sqrt(N_a N_b) S_ab", data=info, n=1)
    else:
        ctx.check("nonnegative", np.all(res["Sq"].values >= -0.5e-6), key + "/nonnegative", "Sq negative", info)
    if outfile:
        import pandas as pd
        back = pd.read_csv(outfile)
        good = list(back.columns) == list(res.columns) and len(back) == len(res) and \
            bool(np.all(np.abs(back.values - res.values) <= 0.5e-6 + 1e-9 * np.abs(res.values)))
        ctx.check("csv", good, key + "/csv", "CSV differs from returned frame beyond %.6f", info)
    # --- history: the species labels of the SAME snapshot objects are permuted in place (sub-populations relabelled to get other partials)
    #     and a fresh analysis is made: every column follows the labels the snapshots hold now
    if 2 <= Kreal <= 5 and rng.random() < 0.3 and all(s_.particle_type.flags.writeable for s_ in snaps.snapshots) and \
            len({tuple(np.unique(s_.particle_type)) for s_ in snaps.snapshots}) == 1:
        perm = rng.permutation(Kreal) + 1
        if not np.array_equal(perm, np.arange(1, Kreal + 1)):
            for s_ in snaps.snapshots:
                s_.particle_type[...] = perm[np.asarray(s_.particle_type).astype(np.int64) - 1]
            ok_r, res_r = ctx.call(key + "/relabelled_in_place", lambda: sq(snaps, **kwargs).getresults(), data=info)
            if ok_r and res_r is not None:
                ref2, _qn2 = reference([np.asarray(s.positions, dtype=np.float64) for s in snaps.snapshots], [s.particle_type for s in snaps.snapshots], L, nvec)
                good = list(res_r.columns) == ["q"] + list(ref2.keys()) and len(res_r) == len(groups)
                worst = 0.0
                if good:
                    for c in ref2:
                        exp = np.array([ref2[c][g].mean() for g in groups])
                        worst = max(worst, float(np.abs(res_r[c].values - exp).max() / max(1.0, np.abs(exp).max())))
                ctx.check("relabelled_in_place", good and worst <= 0.5e-6 + 1e-9, key + "/relabelled_in_place",
                          lambda: f"after the species labels of the snapshots were permuted in place ({perm.tolist()}) a fresh analysis differs from the "
                                  f"definition by {worst:.3g} (columns {list(res_r.columns)})", info)
    for f in os.listdir(wd):
        os.remove(os.path.join(wd, f))


def expected_default_set_large(d, numofq):
    """the documented default set for large ranges, vectorised (exact integer arithmetic): all non-zero integer vectors with components in
    [-floor(numofq/2), floor(numofq/2)) whose squared norm is a perfect square"""
    nhalf = int(numofq / 2)
    ax = np.arange(-nhalf, nhalf, dtype=np.int64)
    out = []
    if d == 2:
        s2 = ax[:, None] ** 2 + ax[None, :] ** 2
        r = np.floor(np.sqrt(s2.astype(np.float64))).astype(np.int64)
        sq_ = ((r * r == s2) | ((r + 1) * (r + 1) == s2)) & (s2 > 0)
        i, j = np.nonzero(sq_)
        out = list(zip(ax[i].tolist(), ax[j].tolist()))
    else:
        s2 = ax[:, None] ** 2 + ax[None, :] ** 2
        for a in ax.tolist():
            t = s2 + a * a
            r = np.floor(np.sqrt(t.astype(np.float64))).astype(np.int64)
            sq_ = ((r * r == t) | ((r + 1) * (r + 1) == t)) & (t > 0)
            j, k = np.nonzero(sq_)
            out += [(a, b, c) for b, c in zip(ax[j].tolist(), ax[k].tolist())]
    return out


def qset_probe_large(ctx, rng):
    """ranges far beyond the usual (large boxes: L ~ 100-250 at q_max ~ 10): integer vectors of norm 200-350, where sqrt(n.n) of a
    non-square n.n comes within 1e-5 relative of an integer"""
    from PyMatterSim.utils.wavevector import choosewavevector
    todo = [(2, int(rng.choice([340, 452, 513, 700])))]
    if ctx.thorough and ctx.shard % 4 == 0:
        todo.append((3, int(rng.choice([276, 290]))))
    for d, numofq in todo:
        ok, got = ctx.call("choosewavevector/large", choosewavevector, d, numofq, False, data={"ndim": d, "numofq": numofq})
        if not ok:
            continue
        exp = sorted(expected_default_set_large(d, numofq))
        g = sorted(tuple(int(v) for v in r) for r in np.asarray(got))
        ctx.count("default_qset_large_ranges")
        ctx.check("default_qset", g == exp, "choosewavevector/set/large",
                  lambda: f"ndim={d} numofq={numofq}: {len(g)} vectors, expected {len(exp)}; missing {sorted(set(exp) - set(g))[:4]} extra {sorted(set(g) - set(exp))[:4]}",
                  {"ndim": d, "numofq": numofq})


def qset_probe(ctx):
    """the default wave-vector set, directly on the generator, for every numofq the S(q) class can pass."""
    from PyMatterSim.utils.wavevector import choosewavevector
    for d, top in ((2, 34), (3, 14)):
        for numofq in range(2, top):
            for op in (False, True, "x", "y", "z"):
                if op == "z" and d == 2:
                    continue
                ok, got = ctx.call("choosewavevector", choosewavevector, d, numofq, op,
                                   data={"ndim": d, "numofq": numofq, "onlypositive": op})
                if not ok:
                    continue
                exp = expected_default_set(d, numofq, op)
                g = sorted(tuple(int(v) for v in r) for r in np.asarray(got))
                ctx.check("default_qset", g == sorted(exp), "choosewavevector/set",
                          lambda: f"ndim={d} numofq={numofq} onlypositive={op}: {len(g)} vectors, expected {len(exp)}; "
                                  f"missing {sorted(set(exp) - set(g))[:4]} extra {sorted(set(g) - set(exp))[:4]}",
                          {"ndim": d, "numofq": numofq, "onlypositive": op})


def run(ctx):
    from ..harness import fresh_dir, drop_dir
    wd = fresh_dir("c04")
    if ctx.shard == 0:
        qset_probe(ctx)
    if ctx.shard == 0 or ctx.thorough:
        qset_probe_large(ctx, ctx.rng())
    if ctx.shard == 0 or ctx.thorough:
        # systems far beyond the usual size: particles x wave vectors in the millions (block-wise evaluation boundaries)
        for K_, m_ in ((2, "default"), (3, "explicit")):
            one_case(ctx, ctx.rng(), wd, K=K_, mode=m_, force_N=int(ctx.rng().choice([6000, 9000])))
            ctx.count("systems_over_5000_particles")
    n = ctx.n(800, 1500)
    for i in range(n):
        rng = ctx.rng()
        one_case(ctx, rng, wd, K=(i % 6) + 1 if i < 18 else None, mode=("default" if i % 3 else "explicit") if i < 18 else None)
        if ctx.out_of_time():
            break
    drop_dir(wd)
