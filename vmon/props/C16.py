"""C16 — coarse graining returns the stated neighbour, Gaussian-grid and window averages."""
from __future__ import annotations

import itertools
import os
from fractions import Fraction

import numpy as np

from ..gen import config as gc
from ..ref import geom
from .C06 import random_lists, write_nl

SPEC = {
    "quick_procs": 2, "thorough_procs": 16, "timeout_quick": 400, "timeout_thorough": 2400,
    "anchors": ["PyMatterSim.utils.coarse_graining:spatial_average", "PyMatterSim.utils.coarse_graining:gaussian_blurring",
                "PyMatterSim.utils.coarse_graining:time_average", "PyMatterSim.utils.funcs:grid_gaussian"],
    "must_reach": ["PyMatterSim.utils.coarse_graining:spatial_average", "PyMatterSim.utils.coarse_graining:gaussian_blurring",
                   "PyMatterSim.utils.coarse_graining:time_average"],
    "floors": {"spatial_average": 300, "grid_positions": 60, "grid_values": 2000, "window_values": 300, "window_index": 300,
               "window_length": 100, "unequal_grid_cases": 20, "exact_multiple_cases": 15,
               "file_replaced_with_preserved_time_stamp": 15, "blurring_in_other_units_of_length": 10},
    "rule": ("spatial average: ranks 0/1/2 x own neighbour files (ragged, multi-frame) x Nmax; Gaussian blurring: grids with "
             "equal and unequal point numbers per axis incl. 1- and 2-point axes in 2D/3D x sigma, cut x masks x box origins x "
             "ranks 0/1/2 x 1..3 frames; time average: windows 1..T-1 incl. periods that are exact multiples of the frame "
             "interval (decimal inputs, exact rational arithmetic in the oracle); non-trivial = more than one grid point / "
             "neighbour / frame involved; distinct = digest of the inputs"),
    "assumptions": ["grid-particle distances within 1e-9 of the Gaussian cut-off are ties (case regenerated)",
                    "time_average: window length >= 1 and <= T-1; for even windows either central frame index is accepted",
                    "number of returned windows is not pinned by the statement: T-w or T-w+1 rows are accepted"],
}


def represent(A, h):
    """the caller's property array in another in-memory representation (fresh copy / read-only / Fortran order / strided view)"""
    r = h % 5
    B = A.copy()
    if r == 1:
        B.setflags(write=False)
    elif r == 2 and A.ndim >= 2:
        B = np.asfortranarray(A)
    elif r == 3:
        big = np.zeros(A.shape[:1] + (2 * A.shape[1] + 1,) + A.shape[2:], dtype=A.dtype)
        big[:, 1::2] = A
        B = big[:, 1::2]
    return B


def case_spatial(ctx, rng, wd):
    from PyMatterSim.utils.coarse_graining import spatial_average
    T = int(rng.integers(1, 4))
    N = int(rng.integers(3, 30))
    rank = int(rng.choice([0, 1, 2]))
    d = int(rng.choice([2, 3]))
    A = rng.normal(size=(T, N) + (d,) * rank)
    if rng.random() < 0.2:
        A = A + 1j * rng.normal(size=A.shape)
    lists = [random_lists(rng, N) for _ in range(T)]
    if rng.random() < 0.3:
        for l in lists:
            l[int(rng.integers(0, N))] = []          # a particle without neighbours averages to itself
    fn = os.path.join(wd, "nl.dat")
    write_nl(fn, lists)
    maxcn = max(len(x) for l in lists for x in l)
    Nmax = int(rng.choice([maxcn, maxcn + 5, 30]))
    out = os.path.join(wd, "sa.npy") if rng.random() < 0.2 else ""
    info = lambda: {"T": T, "N": N, "rank": rank, "Nmax": Nmax, "lists": lists if N <= 10 else "omitted", "property": A if A.size < 200 else "omitted"}  # noqa: E731
    Ain = represent(A, T + N + rank)
    if rng.random() < 0.25:
        # history: another list of the same shape lived under this very name and was read with the same arguments; the file was then replaced
        # by the present one with its time stamp PRESERVED or older (cp -p, rsync -t, restored from a backup, a symlink re-pointed): the
        # content decides, not the name / size / time stamp
        other = [random_lists(rng, N) for _ in range(T)]
        write_nl(fn, other)
        st = os.stat(fn)
        ctx.call("spatial_average/prior_call", spatial_average, Ain, fn, Nmax, "", data=info)
        write_nl(fn, lists)
        os.utime(fn, ns=(st.st_atime_ns, st.st_mtime_ns - int(rng.choice([0, 1, 7])) * 10 ** 9))
        ctx.count("file_replaced_with_preserved_time_stamp")
    elif rng.random() < 0.3:
        # history: the same file read immediately before with another maximum / for another property of the same shape
        if rng.random() < 0.5:
            ctx.call("spatial_average/prior_call", spatial_average, Ain, fn, max(1, maxcn - 1), "", data=info)
        else:
            ctx.call("spatial_average/prior_call", spatial_average, rng.normal(size=A.shape), fn, Nmax, "", data=info)
        ctx.count("prior_call_one_argument_changed")
    ok, res = ctx.call("spatial_average", spatial_average, Ain, fn, Nmax, out, data=info)
    if ok:
        ctx.check("input_untouched", np.array_equal(np.asarray(Ain), A), "spatial_average/input_modified", "the property array was modified", info)
    ctx.case(f"spatial/rank{rank}", A, lists, nontrivial=True, sample={"T": T, "N": N, "rank": rank, "Nmax": Nmax})
    if not ok:
        return
    exp = np.empty_like(A)
    for t in range(T):
        for i in range(N):
            idx = [i] + lists[t][i]
            exp[t, i] = A[t, idx].mean(axis=0)
    ctx.close("spatial_average", np.asarray(res), exp, "spatial_average/values", rtol=1e-10, atol=1e-12, what="mean over self + neighbours", data=info)
    if out:
        ctx.check("spatial_average", np.array_equal(np.load(out), res), "spatial_average/file", "saved file differs from returned array", info)
        os.remove(out)
    os.remove(fn)


def case_blur(ctx, rng, wd, unequal, big=False):
    from PyMatterSim.utils.coarse_graining import gaussian_blurring
    d = int(rng.choice([2, 3]))
    T = int(rng.integers(1, 4))
    N = int(rng.integers(2, 25))
    rank = int(rng.choice([0, 0, 1, 2]))
    if big:
        d, T, N = 3, 1, 300
    ckind = "ortho" if (big or rng.random() < 0.7) else str(rng.choice(["tri+", "tri-", "tri"]))
    cell = gc.make_cell(rng, d, ckind, lmin=3.0, lmax=9.0)
    # another unit of length (R10): cell, width and cut-off scale together; the blurred value scales like 1/sqrt(2 pi sigma^2)
    lu = float(rng.choice([1e-9, 1e-10, 1e5])) if (not big and rng.random() < 0.12) else 1.0
    if lu != 1.0:
        ctx.count("blurring_in_other_units_of_length")

    def scaled(c_):
        c_ = dict(c_)
        c_["H"], c_["origin"], c_["tilt"] = c_["H"] * lu, np.asarray(c_["origin"]) * lu, tuple(t_ * lu for t_ in c_["tilt"])
        return c_
    cell = scaled(cell)
    # the box (lengths and origin) may change from frame to frame (NPT runs, deformation): every frame has its own grid
    vary = T > 1 and rng.random() < 0.5
    cells = [cell] + [scaled(gc.make_cell(rng, d, ckind, lmin=3.0, lmax=9.0)) if vary else cell for _ in range(T - 1)]
    if vary and rng.random() < 0.5:
        # the SAME cell (lengths and tilt) translated / re-centred between frames (change_box, fix recenter, concatenated runs):
        # only the bounds move
        cells = [cell]
        for _t in range(T - 1):
            c_ = dict(cell)
            c_["origin"] = cell["origin"] + rng.uniform(-4, 4, size=d) * lu
            cells.append(c_)
        ctx.count("same_cell_translated_between_frames")
    if ckind != "ortho":
        ctx.count("triclinic_blur_cases")
    snaps = gc.snapshots_from([gc.snapshot_from(cells[t], rng.random((N, d)), np.ones(N, dtype=int), 100 * t) for t in range(T)])
    if unequal:
        ng = np.array([int(rng.choice([1, 2, 3, 4, 5, 7])) for _ in range(d)])
        if len(set(ng.tolist())) == 1:
            ng[0] = ng[0] % 6 + 2
            ng[-1] = 2 if ng[0] != 2 else 5
    else:
        ng = np.full(d, int(rng.integers(2, 7)))
    if big:
        ng = np.array([37, 23, 11])          # a grid of ~10^4 points (block-wise evaluation boundaries)
        ctx.count("grids_over_9000_points")
    sigma = float(rng.uniform(0.3, 2.0)) * lu
    L = np.min([np.diag(c["H"]) for c in cells], axis=0)
    cut = float(rng.uniform(0.8 * lu, 0.49 * L.min() / 0.5 * 0.5))
    cut = min(cut, 0.49 * L.min())
    ppp = gc.random_mask(rng, d)
    gc.unwrap_in_place(rng, snaps.snapshots, [c["H"] for c in cells], ppp)       # unwrapped coordinates (particles outside the bounds the grid spans)
    if ckind != "ortho":
        cut = min(cut, 0.95 * min(geom.agreement_radius(c["H"], ppp) for c in cells))      # R2: one image only inside the cut-off
    pin = ppp if rng.random() < 0.7 or d == 3 else np.array([ppp[0], ppp[1], 1])       # a longer mask is cut to the dimension
    A = rng.normal(size=(T, N) + (d,) * rank)
    out = os.path.join(wd, "gb") if rng.random() < 0.2 else ""
    info = lambda: {"d": d, "T": T, "N": N, "rank": rank, "ngrids": ng, "sigma": sigma, "cut": cut, "ppp": pin, "L": L, "origin": cell["origin"],  # noqa: E731
                    "positions": [s.positions for s in snaps.snapshots] if N <= 12 else "omitted"}
    key = "gaussian_blurring/" + ("unequal_grid" if unequal else "equal_grid") + f"/{d}D" + ("/varying_box" if vary else "")
    Ain = represent(A, T + N + rank + d)
    if rng.random() < 0.3:
        # history: the same trajectory blurred immediately before on a grid with the SAME number of points arranged otherwise (point
        # numbers per axis reversed), or with another width / cut-off
        u = rng.random()
        if u < 0.4 and len(set(ng.tolist())) > 1:
            ctx.call(key + "/prior_call", gaussian_blurring, snaps, Ain, ng[::-1].copy(), sigma, pin.copy(), cut, "", data=info)
        elif u < 0.7:
            ctx.call(key + "/prior_call", gaussian_blurring, snaps, Ain, ng.copy(), sigma * 1.7, pin.copy(), cut, "", data=info)
        else:
            ctx.call(key + "/prior_call", gaussian_blurring, snaps, Ain, ng.copy(), sigma, pin.copy(), cut * 0.6, "", data=info)
        ctx.count("prior_call_one_argument_changed")
    ok, res = ctx.call(key, gaussian_blurring, snaps, Ain, ng.copy(), sigma, pin.copy(), cut, out, data=info)
    if ok:
        ctx.check("input_untouched", np.array_equal(np.asarray(Ain), A, equal_nan=True), key + "/input_modified", "the property array was modified", info)
    ctx.case(f"blur/{d}D/{'unequal' if unequal else 'equal'}/rank{rank}", snaps.snapshots[0].positions, A, ng, sigma, cut, ppp,
             nontrivial=int(np.prod(ng)) > 1, sample={"d": d, "N": N, "ngrids": ng, "sigma": sigma, "cut": cut, "ppp": ppp, "rank": rank})
    if unequal:
        ctx.count("unequal_grid_cases")
    if not ok:
        return
    gp, gv = res
    npts = int(np.prod(ng))
    expgs = []
    for c, s_ in zip(cells, snaps.snapshots):
        lo, Lc = s_.boxbounds[:, 0], s_.boxbounds[:, 1] - s_.boxbounds[:, 0]      # "spanning the box bounds" (the bounding box of a tilted cell)
        axes = [np.linspace(lo[k], lo[k] + Lc[k], ng[k]) for k in range(d)]
        expgs.append(np.array(list(itertools.product(*axes))))              # x slowest: row-major
    expg = expgs[0]
    gp = np.asarray(gp)
    gv = np.asarray(gv)
    if not ctx.check("grid_positions", gp.shape == (T, npts, d) and gv.shape == (T, npts) + A.shape[2:], key + "/shapes",
                     lambda: f"grid positions {gp.shape}, values {gv.shape}; expected {(T, npts, d)}, {(T, npts) + A.shape[2:]}", info):
        return
    okp = True
    for t in range(T):
        okp &= bool(np.abs(gp[t] - expgs[t]).max() <= 1e-12 * max(float(L.max()), np.abs(expgs[t]).max()))       # relative to the cell (R10)
    if not ctx.check("grid_positions", okp, key + "/grid",
                     lambda: f"grid is not the full Cartesian product in row-major order: {len(np.unique(np.round(gp[0], 9), axis=0))} distinct points of {npts}", info):
        return
    for t in range(T):
        pos = snaps.snapshots[t].positions
        dR = (expgs[t][:, None, :] - pos[None, :, :]).reshape(-1, d)
        _v, dist, _ = geom.min_image_vectors(dR, cells[t]["H"], ppp, nimg=1 if ckind == "ortho" else 2)
        dist = dist.reshape(npts, N)
        if np.any(np.abs(dist - cut) < 1e-9 * cut):
            ctx.skip("grid_values")
            continue
        wgt = np.where(dist < cut, np.exp(-dist ** 2 / (2 * sigma ** 2)) / np.sqrt(2 * np.pi * sigma ** 2), 0.0)
        exp = np.tensordot(wgt, A[t], axes=(1, 0))
        ctx.close("grid_values", gv[t], exp, key + "/values", rtol=1e-9, atol=1e-12 * max(1e-300, float(np.abs(exp).max())), scale=max(1e-300, float(np.abs(exp).max())),
                  what=f"frame {t}: Gaussian-weighted sums", data=info)
    if out:
        ok2 = np.array_equal(np.load(out + "_positions.npy"), gp) and np.array_equal(np.load(out + "_properties.npy"), gv)
        ctx.check("grid_positions", ok2, key + "/files", "saved files differ from the returned arrays", info)
        os.remove(out + "_positions.npy")
        os.remove(out + "_properties.npy")


def case_time(ctx, rng, exact, long=False):
    from PyMatterSim.utils.coarse_graining import time_average
    SingleSnapshot, Snapshots = gc.records()
    T = int(rng.integers(3, 13))
    N = int(rng.integers(1, 12))
    if long:
        T, N = int(rng.choice([130, 150, 257])), int(rng.integers(1, 4))        # more frames than usual (block-wise evaluation boundaries)
        ctx.count("series_over_128_frames")
    dt_s = str(rng.choice(["0.002", "0.005", "0.001", "0.01", "1.0", "0.0025"]))
    step = int(rng.choice([1, 10, 100, 250, 1000]))
    t0 = int(rng.choice([0, 500]))
    interval = Fraction(dt_s) * step
    w = int(rng.integers(1, T))
    if exact:
        period = interval * w
    elif rng.random() < 0.25 and w >= 2:
        # just below an exact multiple, by less than half a time step: the window is w-1 frames, whatever the rounding of period/dt says
        period = interval * w - Fraction(dt_s) * Fraction(int(rng.integers(1, 49)), 100)
        ctx.count("period_just_below_a_multiple")
    else:
        period = interval * w + interval * Fraction(int(rng.integers(1, 99)), 100)
    period_s = format(float(period), ".10g")
    if Fraction(period_s) != period:
        # keep the decimal literal and the rational in agreement
        period = Fraction(period_s)
    wexp = int(period / interval)            # floor over the rationals
    q = period / interval
    if not exact and abs(q - round(q)) < Fraction(1, 10 ** 6):
        return
    if wexp < 1 or wexp > T - 1:
        return
    A = rng.normal(size=(T, N))
    cplx = rng.random() < 0.4
    if cplx:
        A = A + 1j * rng.normal(size=(T, N))
    outlier = None
    if T >= 4 and rng.random() < 0.25:
        # one isolated value many orders of magnitude above the rest (an ill-defined order parameter in one frame): windows that do not
        # contain that frame are defined by the other frames alone
        outlier = (int(rng.integers(0, T - 2)), int(rng.integers(0, N)))
        A[outlier] = float(rng.choice([3e17, -7e15, np.inf, np.nan, np.nan]))   # nan: an order parameter that is undefined in one frame (0/0: no neighbour)
        ctx.count("series_with_an_isolated_outlier")
    snaps = Snapshots(nsnapshots=T, snapshots=[
        SingleSnapshot(timestep=t0 + step * t, nparticle=N, particle_type=np.ones(N, dtype=int), positions=np.zeros((N, 2)),
                       boxlength=np.ones(2), boxbounds=np.zeros((2, 2)), realbounds=None, hmatrix=np.eye(2)) for t in range(T)])
    info = lambda: {"T": T, "N": N, "dt": dt_s, "timestep_interval": step, "time_period": period_s, "expected_window": wexp,  # noqa: E731
                    "property": A if A.size < 100 else "omitted"}
    key = "time_average" + ("/exact_multiple" if exact and period == interval * w else "")
    Ain = represent(A, T + N + w)
    if rng.random() < 0.3 and T >= 4:
        # history: another window asked for immediately before (a scan over averaging times)
        ctx.call(key + "/prior_call", time_average, snaps, Ain, float(interval * (1 if wexp > 1 else 2)) * 1.0000001, float(dt_s), data=info)
        ctx.count("prior_call_one_argument_changed")
    ok, res = ctx.call(key, time_average, snaps, Ain, float(period_s), float(dt_s), data=info)
    if ok:
        ctx.check("input_untouched", np.array_equal(np.asarray(Ain), A, equal_nan=True), key + "/input_modified", "the property array was modified", info)
    ctx.case(f"time/{'exact' if exact else 'generic'}/{'complex' if cplx else 'real'}", A, step, dt_s, period_s, nontrivial=wexp >= 2,
             sample={"T": T, "N": N, "dt": dt_s, "interval_steps": step, "time_period": period_s, "window": wexp})
    if exact:
        ctx.count("exact_multiple_cases")
    if not ok:
        return
    vals, mids = res
    vals = np.asarray(vals)
    mids = np.asarray(mids)
    rows = vals.shape[0]
    # window length is observable through the values: row 0 must be the mean of exactly wexp frames
    if not ctx.check("window_length", rows in (T - wexp, T - wexp + 1) and vals.shape[1:] == (N,) and len(mids) == rows, key + "/window_length",
                     lambda: f"{rows} windows returned for T={T}: window of {T - rows} (or {T - rows + 1}) frames instead of floor(period/interval)={wexp}", info):
        return
    with np.errstate(all="ignore"):
        exp = np.array([A[n:n + wexp].mean(axis=0) for n in range(rows)])
    if outlier is None:
        ctx.close("window_values", vals, exp, key + "/values", rtol=1e-10, atol=1e-12, what="window means", data=info)
    else:
        # window by window, each on its own scale: the outlier may only show in the windows that contain its frame
        t_o, i_o = outlier
        clean = np.array([not (n <= t_o < n + wexp) for n in range(rows)])
        ok_clean = bool(np.all(np.abs(vals[clean] - exp[clean]) <= 1e-10 * np.maximum(1.0, np.abs(exp[clean])))) if clean.any() else True
        col = np.ones(N, dtype=bool)
        col[i_o] = False
        ok_other = bool(np.all(np.abs(vals[:, col] - exp[:, col]) <= 1e-10 * np.maximum(1.0, np.abs(exp[:, col])))) if col.any() else True
        hit = vals[~clean, i_o]
        with np.errstate(all="ignore"):
            e_hit = exp[~clean, i_o]
            ok_hit = bool(np.all((hit == e_hit) | (np.abs(hit - e_hit) <= 1e-10 * np.abs(e_hit)) | (np.isnan(hit) & np.isnan(e_hit))))
        ctx.check("window_values", ok_clean and ok_other and ok_hit, key + "/values/outlier",
                  lambda: f"series with one outlier at frame {t_o}, particle {i_o}: windows without that frame correct={ok_clean}, other particles correct={ok_other}, "
                          f"windows with it correct={ok_hit}", info)
    n = np.arange(rows)
    if wexp % 2:
        good = np.array_equal(mids, n + (wexp - 1) // 2)
    else:
        good = bool(np.all((mids == n + wexp // 2 - 1) | (mids == n + wexp // 2)))
    ctx.check("window_index", good, key + "/central_index", lambda: f"window {wexp}: reported indices {mids.tolist()}, expected n+{(wexp - 1) / 2}", info)


def run(ctx):
    from ..harness import fresh_dir, drop_dir
    wd = fresh_dir("c16")
    if ctx.shard == 0 or ctx.thorough:
        case_blur(ctx, ctx.rng(), wd, unequal=True, big=True)
        for _ in range(3):
            case_time(ctx, ctx.rng(), exact=False, long=True)
    n = ctx.n(160, 500)
    for i in range(n):
        case_spatial(ctx, ctx.rng(), wd)
        case_blur(ctx, ctx.rng(), wd, unequal=(i % 2 == 0))
        case_time(ctx, ctx.rng(), exact=(i % 3 == 0))
        case_time(ctx, ctx.rng(), exact=False)
        if ctx.out_of_time():
            break
    drop_dir(wd)
