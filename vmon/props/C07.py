"""C07 — observables respect translation, image, relabelling, axis and rotation symmetry (oracle-free).

For each (input, observable, group element) triple the real code runs on the input and on the transformed input;
the two results must be related by the transformation (equal, permuted, column-swapped, ...).  Inputs are the
repository's own sample trajectories and generated systems of 100-1000 particles -- sizes at which a reference
model would be slow but a relation costs two calls.
"""
from __future__ import annotations

import os
import re

import numpy as np

from ..gen import config as gc

SPEC = {
    "quick_procs": 6, "thorough_procs": 16, "timeout_quick": 900, "timeout_thorough": 3600,
    "anchors": ["PyMatterSim.utils.pbc:remove_pbc", "PyMatterSim.static.gr:gr.getresults", "PyMatterSim.static.sq:sq.getresults",
                "PyMatterSim.static.boo:boo_3d.ql_Ql", "PyMatterSim.static.boo:boo_3d.w_W_cap", "PyMatterSim.static.boo:boo_2d.lthorder",
                "PyMatterSim.static.geometric:q8_tetrahedral", "PyMatterSim.static.pairentropy:S2.particle_s2",
                "PyMatterSim.static.hessians:HessianMatrix.diagonalize_hessian", "PyMatterSim.static.shape:gyration_tensor",
                "PyMatterSim.static.vector:participation_ratio", "PyMatterSim.neighbors.calculate_neighbors:Nnearests",
                "PyMatterSim.neighbors.calculate_neighbors:cutoffneighbors", "PyMatterSim.dynamic.dynamics:Dynamics.relaxation"],
    "must_reach": ["PyMatterSim.static.gr:gr.getresults", "PyMatterSim.static.sq:sq.getresults", "PyMatterSim.static.boo:boo_3d.ql_Ql",
                   "PyMatterSim.static.boo:boo_3d.w_W_cap", "PyMatterSim.static.boo:boo_2d.lthorder", "PyMatterSim.static.geometric:q8_tetrahedral",
                   "PyMatterSim.static.pairentropy:S2.particle_s2", "PyMatterSim.static.hessians:HessianMatrix.diagonalize_hessian",
                   "PyMatterSim.static.shape:gyration_tensor", "PyMatterSim.static.vector:participation_ratio",
                   "PyMatterSim.neighbors.calculate_neighbors:Nnearests", "PyMatterSim.dynamic.dynamics:Dynamics.relaxation"],
    "floors": {"translate": 8, "image": 8, "relabel": 8, "swap": 4, "axes": 8, "rotate": 6, "dilate": 2, "values": 20000},
    "insitu": ("pbc", "read_neighbors", "sph", "pr"),
    "rule": ("(input, observable, group element) triples: inputs = repository sample trajectories (unary 500, quarternary 500x2, "
             "2ddump 1000x2 / x10 for dynamics, IS.2DIPL 800, 3dkaljdump 1000x2 / x10, ternary and 2d-triclinic in the thorough tier) and "
             "generated liquids / perturbed crystals / open clusters of 100-400 particles; observables = g(r), S(q), N-nearest and "
             "cut-off neighbour sets, q_l / Q_l / w-hat_l, |psi_l|, tetrahedral order, S2, Hessian spectrum, relaxation functions, "
             "gyration descriptors, participation ratio; group elements = random rigid translations, per-particle whole-cell shifts, id "
             "permutations, species transpositions, axis permutations with the box, SO(2)/SO(3) rotations of open clusters, dilations; "
             "evaluations = triples run; non-trivial = both calls returned; distinct = digest of (input, observable, transformation parameters)"),
    "assumptions": ["continuous outputs are compared at rtol 1e-8 of the column scale", "discrete outputs (bin counts, neighbour sets, "
                    "nearest-four selection) are compared exactly unless the untransformed configuration has a distance within 1e-9 (relative) "
                    "of the deciding threshold for that bin / particle (tie, R1)",
                    "degenerate Hessian modes: only frequencies are compared, participation ratios only for modes separated by 1e-6"],
}

SAMPLE = "tests/sample_test_data"


# ------------------------------------------------------------------ inputs
def load(name, frames=None):
    from .. import REPO
    from PyMatterSim.reader.lammps_reader_helper import read_lammps_wrapper
    path, d = {
        "unary": ("unary.dump", 3), "quarternary": ("quarternary.dump", 3), "ternary": ("ternary.dump", 3),
        "2ddump.s": ("2d/2ddump.s.atom", 2), "2ddump.u": ("2d/2ddump.u.atom", 2), "IS2DIPL": ("IS.2DIPL.atom", 2),
        "3dkalj.s": ("3d/3dkaljdump.s.atom", 3), "3dkalj.u": ("3d/3dkaljdump.u.atom", 3), "tri2d": ("2d_triclinic.atom", 2),
    }[name]
    sn = read_lammps_wrapper(os.path.join(REPO, SAMPLE, path), d)
    if frames is not None:
        _, Snapshots = gc.records()
        sn = Snapshots(nsnapshots=min(frames, sn.nsnapshots), snapshots=sn.snapshots[:frames])
    return sn, d


def generated(rng, d, N, K, kind, frames=1, open_cluster=False, triclinic=False, sheared=False):
    """liquid / perturbed crystal / open cluster; returns Snapshots"""
    cell = gc.make_cell(rng, d, "tri" if triclinic else "ortho", lmin=8.0, lmax=12.0, origin_kind=str(rng.choice(["zero", "neg", "asym"])))
    if triclinic:
        f = gc.make_frac(rng, d, N, "hardcore")
        types = gc.make_types(rng, len(f), K)
        if sheared:
            # a sheared trajectory: equal edge lengths, an own tilt per frame (fix deform xy): every frame has its own cell matrix
            frames = 3
            cells = [cell] + [gc.retilt(rng, cell) for _ in range(frames - 1)]
        else:
            cells = [cell] * frames
        return gc.snapshots_from([gc.snapshot_from(cells[t], (f + (rng.normal(0, 0.02, f.shape) if t else 0.0)) % 1.0, types, timestep=100 * t)
                                  for t in range(frames)])
    # edges must differ (by >= 8 %) so that an axis mix-up cannot hide behind a cubic box
    Ld = np.diag(cell["H"]).copy()
    Ld = Ld[0] * np.array([1.0, 0.86, 1.13][:d]) * rng.uniform(0.97, 1.03, size=d) if np.ptp(Ld) < 0.08 * Ld.max() else Ld
    cell["H"], cell["L"] = np.diag(Ld), Ld.copy()
    if kind == "crystal":
        f = gc.make_frac(rng, d, N, "lattice")
    else:
        f = gc.make_frac(rng, d, N, "hardcore")
    N = len(f)
    types = gc.make_types(rng, N, K)
    L = np.diag(cell["H"])
    if open_cluster:
        f = 0.25 + 0.5 * f          # a cluster well inside the box, open boundaries
    snaps = []
    for t in range(frames):
        ft = (f + (rng.normal(0, 0.02, f.shape) if t else 0.0))
        if not open_cluster:
            ft = ft % 1.0
        snaps.append(gc.snapshot_from(cell, ft, types, timestep=100 * t))
    return gc.snapshots_from(snaps)


# ------------------------------------------------------------------ transformations
def remake(s, **kw):
    SingleSnapshot, _ = gc.records()
    d = {k: getattr(s, k) for k in s.__dataclass_fields__}
    d.update(kw)
    return SingleSnapshot(**d)


def map_snaps(sn, fn):
    _, Snapshots = gc.records()
    return Snapshots(nsnapshots=sn.nsnapshots, snapshots=[fn(k, s) for k, s in enumerate(sn.snapshots)])


class T:
    """a group element acting on (dict of Snapshots, params)"""

    def __init__(self, kind, **kw):
        self.kind = kind
        self.__dict__.update(kw)

    def apply(self, inp):
        P = dict(inp["P"])
        out = {"P": P}
        for key in ("x", "xu"):
            sn = inp.get(key)
            if sn is None:
                out[key] = None
                continue
            if self.kind == "translate":
                out[key] = map_snaps(sn, lambda k, s: remake(s, positions=s.positions + self.t))
            elif self.kind == "image":
                if key == "xu" or self.frame_constant:
                    out[key] = map_snaps(sn, lambda k, s: remake(s, positions=s.positions + self.n[0] @ s.hmatrix))
                else:
                    out[key] = map_snaps(sn, lambda k, s: remake(s, positions=s.positions + self.n[k % len(self.n)] @ s.hmatrix))
            elif self.kind == "relabel":
                out[key] = map_snaps(sn, lambda k, s: remake(s, positions=s.positions[self.perm].copy(), particle_type=s.particle_type[self.perm].copy()))
            elif self.kind == "swap":
                a, b = self.a, self.b

                def sw(k, s):
                    t = s.particle_type.copy()
                    t[s.particle_type == a] = b
                    t[s.particle_type == b] = a
                    return remake(s, particle_type=t)
                out[key] = map_snaps(sn, sw)
            elif self.kind == "axes":
                ax = self.ax
                out[key] = map_snaps(sn, lambda k, s: remake(s, positions=s.positions[:, ax].copy(), boxlength=s.boxlength[ax].copy(),
                                                             boxbounds=s.boxbounds[ax].copy(), hmatrix=s.hmatrix[ax][:, ax].copy()))
            elif self.kind == "rotate":
                Rm = self.R
                out[key] = map_snaps(sn, lambda k, s: remake(s, positions=(s.positions - self.c) @ Rm.T + self.c))
            elif self.kind == "dilate":
                sc = self.s
                out[key] = map_snaps(sn, lambda k, s: remake(s, positions=s.positions * sc, boxlength=s.boxlength * sc, boxbounds=s.boxbounds * sc,
                                                             hmatrix=s.hmatrix * sc))
        if self.kind == "swap":
            a, b = self.a - 1, self.b - 1
            for name in ("sig", "eps", "rc", "s2sig"):
                if name in P:
                    M = np.array(P[name], copy=True)
                    M[[a, b]] = M[[b, a]]
                    M[:, [a, b]] = M[:, [b, a]]
                    P[name] = M
            for name in ("masses", "diam"):
                if name in P:
                    m = dict(P[name])
                    m[self.a], m[self.b] = P[name][self.b], P[name][self.a]
                    P[name] = m
        if self.kind == "dilate":
            P["rdelta"] = P["rdelta"] * self.s
        if self.kind == "rotate" and "field" in P:
            P["field"] = P["field"] @ self.R.T
        if self.kind == "relabel" and "field" in P:
            P["field"] = P["field"][self.perm]
        return out

    def describe(self):
        d = {"kind": self.kind}
        for k, v in self.__dict__.items():
            if k != "kind":
                d[k] = v if not isinstance(v, np.ndarray) or v.size <= 12 else f"array{v.shape}"
        return d


def random_rotation(rng, d):
    if d == 2:
        a = rng.uniform(0, 2 * np.pi)
        return np.array([[np.cos(a), -np.sin(a)], [np.sin(a), np.cos(a)]])
    q, r = np.linalg.qr(rng.normal(size=(3, 3)))
    q = q * np.sign(np.diag(r))
    if np.linalg.det(q) < 0:
        q[:, 0] = -q[:, 0]
    return q


def make_transform(rng, kind, inp, d, N, K, T_):
    if kind == "translate":
        return T("translate", t=rng.uniform(-30, 30, size=d) * rng.choice([1.0, 0.01, 3.7]))
    if kind == "image":
        return T("image", n=rng.integers(-2, 3, size=(max(T_, 1), N, d)).astype(float), frame_constant=bool(inp["P"].get("frame_constant_images")))
    if kind == "relabel":
        return T("relabel", perm=rng.permutation(N))
    if kind == "swap":
        a, b = sorted(rng.choice(np.arange(1, K + 1), size=2, replace=False).tolist())
        return T("swap", a=int(a), b=int(b))
    if kind == "axes":
        perms = [p for p in ([[1, 0]] if d == 2 else [[1, 0, 2], [0, 2, 1], [2, 1, 0], [1, 2, 0], [2, 0, 1]])]
        return T("axes", ax=np.array(perms[int(rng.integers(0, len(perms)))]))
    if kind == "rotate":
        s0 = (inp["x"] or inp["xu"]).snapshots[0]
        return T("rotate", R=random_rotation(rng, d), c=s0.positions.mean(axis=0))
    if kind == "dilate":
        s0 = (inp["x"] or inp["xu"]).snapshots[0]
        if not np.array_equal(s0.hmatrix, np.diag(np.diag(s0.hmatrix))) and rng.random() < 0.75:
            # a tilted cell in SI metres: tilt factors of 1e-10 .. 1e-9 (an absolute tolerance somewhere makes the cell "orthogonal")
            return T("dilate", s=float(rng.choice([1e-9, 1e-10, 2.0 ** -33])))
        return T("dilate", s=float(rng.choice([0.37, 2.0, 3.3, 10.0, 1e-9, 1e-10, 1e6])))   # R10: also a change of the unit of length (SI metres, fm)
    raise ValueError(kind)


# ------------------------------------------------------------------ tie hazards (evaluated on the untransformed configuration)
def dist_table(s, ppp):
    """own minimum image for an orthogonal cell (per-axis rounding), full N x N distances"""
    pos = s.positions
    L = np.diag(s.hmatrix) if np.array_equal(s.hmatrix, np.diag(np.diag(s.hmatrix))) else None
    dr = pos[None, :, :] - pos[:, None, :]
    if L is not None:
        dr -= np.rint(dr / L) * L * np.asarray(ppp)[None, None, :]
    else:
        H = s.hmatrix
        f = dr @ np.linalg.inv(H)
        f -= np.rint(f) * np.asarray(ppp)[None, None, :]
        dr = f @ H
    return np.linalg.norm(dr, axis=2)


class Hazard:
    def __init__(self, inp, ppp):
        self.inp, self.ppp, self._tab = inp, ppp, {}

    def table(self, k):
        if k not in self._tab:
            sn = self.inp["x"] or self.inp["xu"]
            if sn.snapshots[k].nparticle > 2500:
                return None
            self._tab = {k: dist_table(sn.snapshots[k], self.ppp)}       # keep one frame only (memory)
        return self._tab[k]

    def rank_tie(self, k, i, nn):
        D = self.table(k)
        if D is None:
            return True
        di = np.sort(np.delete(D[i], i))
        return nn < len(di) and abs(di[nn] - di[nn - 1]) <= 1e-9 * max(di[nn], 1.0)

    def cut_tie(self, k, i, rc):
        D = self.table(k)
        if D is None:
            return True
        return bool((np.abs(np.delete(D[i], i) - rc) <= 1e-9 * max(rc, 1.0)).any())

    def bin_edges_hit(self, nframes, rdelta, nbins):
        """bins adjacent to an edge that some pair distance hits within 1e-9 (any frame)"""
        hot = set()
        for k in range(nframes):
            D = self.table(k)
            if D is None:
                return None
            x = D[np.triu_indices_from(D, 1)] / rdelta
            near = np.abs(x - np.rint(x)) <= 1e-9 * np.maximum(x, 1.0)
            for e in np.unique(np.rint(x[near]).astype(int)):
                hot.update((e - 1, e))
        return hot


# ------------------------------------------------------------------ observables
def nn_file(sn, nn, ppp, path):
    from PyMatterSim.neighbors.calculate_neighbors import Nnearests
    Nnearests(sn, nn, ppp, path)
    return path


def parse_sets(path, N):
    from .C05 import parse_file
    _h, fr = parse_file(path)
    out = []
    for rows in fr:
        sets = [None] * N
        for t in rows:
            sets[int(t[0]) - 1] = frozenset(int(v) - 1 for v in t[2:])
        out.append(sets)
    return out


def obs_gr(inp, wd):
    from PyMatterSim.static.gr import gr
    P = inp["P"]
    r = gr(inp["x"], ppp=P["ppp"], rdelta=P["rdelta"]).getresults()
    return {"table": r}


def obs_sq(inp, wd):
    from PyMatterSim.static.sq import sq
    r = sq(inp["x"], qrange=inp["P"]["qrange"], onlypositive=False).getresults()
    return {"table": r}


def obs_nn(inp, wd):
    P = inp["P"]
    sn = inp["x"]
    N = sn.snapshots[0].nparticle
    p = nn_file(sn, P["nn"], P["ppp"], os.path.join(wd, "nn.dat"))
    return {"sets": parse_sets(p, N), "sets_kind": ("rank", P["nn"])}


def obs_cut(inp, wd):
    from PyMatterSim.neighbors.calculate_neighbors import cutoffneighbors
    P = inp["P"]
    sn = inp["x"]
    p = os.path.join(wd, "cut.dat")
    cutoffneighbors(sn, P["rc_nb"], P["ppp"], p)
    return {"sets": parse_sets(p, sn.snapshots[0].nparticle), "sets_kind": ("cut", P["rc_nb"])}


def obs_boo3(inp, wd):
    from PyMatterSim.static.boo import boo_3d
    P = inp["P"]
    sn = inp["x"]
    p = nn_file(sn, P["nn"], P["ppp"], os.path.join(wd, "nn.dat"))
    b = boo_3d(sn, P["l"], p, None, P["ppp"], 30)
    ql = b.ql_Ql(False)
    Ql = b.ql_Ql(True)
    w, wcap = b.w_W_cap(False)
    return {"pp": {"ql": ql, "Ql": Ql, "wcap": wcap, "w": w}, "pp_dep": ("rank", P["nn"], 1)}


def obs_boo2(inp, wd):
    from PyMatterSim.static.boo import boo_2d
    P = inp["P"]
    sn = inp["x"]
    p = nn_file(sn, P["nn"], P["ppp"], os.path.join(wd, "nn.dat"))
    b = boo_2d(sn, P["l"], p, "", P["ppp"], 10)
    return {"pp": {"abs_psi": np.abs(b.lthorder())}, "pp_dep": ("rank", P["nn"], 0)}


def obs_tetra(inp, wd):
    from PyMatterSim.static.geometric import q8_tetrahedral
    return {"pp": {"q_tetra": q8_tetrahedral(inp["x"], inp["P"]["ppp"])}, "pp_dep": ("rank", 4, 0)}


def obs_s2(inp, wd):
    from PyMatterSim.static.pairentropy import S2
    P = inp["P"]
    r = S2(inp["x"], P["s2sig"], P["ppp"], P["s2_rdelta"], P["s2_ndelta"]).particle_s2()
    return {"pp": {"s2": r}}


def obs_hessian(inp, wd):
    import pandas as pd
    from PyMatterSim.static.hessians import HessianMatrix, InteractionParams, ModelName
    P = inp["P"]
    s = inp["x"].snapshots[0]
    ip = InteractionParams(model_name=getattr(ModelName, P["model"]), ipl_n=10.0, ipl_A=1.0, harmonic_hertz_alpha=2.5)
    hm = HessianMatrix(snapshot=s, masses=P["masses"], epsilons=P["eps"], sigmas=P["sig"], r_cuts=P["rc"], ppp=P["ppp"], shiftpotential=True)
    out = os.path.join(wd, "hs")
    hm.diagonalize_hessian(ip, False, False, out)
    df = pd.read_csv(out + ".omega_PR.csv")
    return {"spectrum": (df["omega"].values, df["PR"].values)}


def obs_relax(inp, wd):
    from PyMatterSim.dynamic.dynamics import Dynamics
    P = inp["P"]
    kw = dict(dt=0.002, ppp=P["ppp"], diameters=P["diam"], a=0.3, cal_type=P.get("cal_type", "slow"))
    if P["dyn_mode"] in ("xu", "both"):
        kw["xu_snapshots"] = inp["xu"]
    if P["dyn_mode"] in ("x", "both"):
        kw["x_snapshots"] = inp["x"]
    return {"table": Dynamics(**kw).relaxation(qconst=P["qconst"])}


def obs_gyration(inp, wd):
    from PyMatterSim.static.shape import gyration_tensor
    pos = np.array(inp["x"].snapshots[0].positions, copy=True)
    return {"vector": np.array([float(np.real(v)) for v in gyration_tensor(pos)])}


def obs_pr(inp, wd):
    from PyMatterSim.static.vector import participation_ratio
    return {"vector": np.array([participation_ratio(inp["P"]["field"])])}


OBS = {"gr": obs_gr, "sq": obs_sq, "nn": obs_nn, "cut": obs_cut, "boo3": obs_boo3, "boo2": obs_boo2, "tetra": obs_tetra, "s2": obs_s2,
       "hessian": obs_hessian, "relax": obs_relax, "gyration": obs_gyration, "pr": obs_pr}
VALID = {
    "gr": ["translate", "image", "relabel", "swap", "axes", "dilate"],
    "sq": ["translate", "image", "relabel", "swap", "axes"],
    "nn": ["translate", "image", "relabel", "axes", "rotate"],
    "cut": ["translate", "image", "relabel", "axes"],
    "boo3": ["translate", "image", "relabel", "axes", "rotate"],
    "boo2": ["translate", "image", "relabel", "axes", "rotate"],
    "tetra": ["translate", "image", "relabel", "axes", "rotate"],
    "s2": ["translate", "image", "relabel", "swap", "axes"],
    "hessian": ["translate", "image", "relabel", "swap", "axes"],
    "relax": ["translate", "image", "relabel", "swap", "axes"],
    "gyration": ["rotate", "translate"],
    "pr": ["rotate", "relabel"],
}


# ------------------------------------------------------------------ comparison
def swap_col(name, a, b):
    m = re.match(r"^(gr|Sq)(\d)(\d)$", name)
    if not m:
        return name
    sw = {str(a): str(b), str(b): str(a)}
    x, y = sorted([sw.get(m.group(2), m.group(2)), sw.get(m.group(3), m.group(3))])
    return f"{m.group(1)}{x}{y}"


def compare(ctx, key, tr, r0, r1, haz, info, obsname, P):
    mon = tr.kind
    ok_all = True
    if "table" in r0:
        a, b = r0["table"], r1["table"]
        cols0 = list(a.columns)
        cols1 = list(b.columns)
        want = [swap_col(c, tr.a, tr.b) for c in cols0] if tr.kind == "swap" else cols0
        if not ctx.check(mon, sorted(want) == sorted(cols1) and len(a) == len(b), key + "/layout",
                         lambda: f"columns {cols1} rows {len(b)} after the transformation, {cols0} rows {len(a)} before", info):
            return False
        hot = None
        for c0, c1 in zip(cols0, want):
            x, y = a[c0].values.astype(float), b[c1].values.astype(float)
            if tr.kind == "dilate" and c0 == "r":
                x = x * tr.s
            scale = max(float(np.nanmax(np.abs(x))) if len(x) else 1.0, 1e-300)
            # S(q) is rounded to 6 decimals per wave vector before the |q| average: one unit of that rounding may flip
            atol = 1.01e-6 if obsname == "sq" else 0.0
            bad = ~(np.abs(x - y) <= 1e-8 * scale + atol)
            bad &= ~(np.isnan(x) & np.isnan(y))
            if bad.any() and obsname == "gr" and c0 != "r":
                if hot is None:
                    hot = haz.bin_edges_hit(inp_frames(info), P["rdelta"], len(x))
                if hot is None or all(int(i) in hot for i in np.nonzero(bad)[0]):
                    ctx.skip("values", int(bad.sum()))
                    bad[:] = False
            ctx.mon("values")["comparisons"] += int(len(x))
            if bad.any():
                i = int(np.nonzero(bad)[0][0])
                ok_all = False
                ctx.violation(key + "/column:" + ("partial" if re.match(r"^(gr|Sq)\d\d$", c0) else c0),
                              f"{obsname} under {tr.kind}: column {c0} (-> {c1}) differs in {int(bad.sum())}/{len(x)} rows, first row {i}: "
                              f"{x[i]!r} before, {y[i]!r} after", info(), mon)
    if "pp" in r0:
        dep = r0.get("pp_dep")
        for name, A in r0["pp"].items():
            B = r1["pp"][name]
            A, B = np.asarray(A), np.asarray(B)
            if not ctx.check(mon, A.shape == B.shape, key + "/shape", f"{name}: shape {B.shape} after, {A.shape} before", info):
                return False
            if tr.kind == "relabel":
                A = A[:, tr.perm]
            # w_l / w-hat_l vanish identically for odd l (values of 1e-18): their natural magnitude, not the round-off, sets the scale
            scale = max(float(np.nanmax(np.abs(A))), {"w": 1e-5, "wcap": 1e-2}.get(name, 0.0), 1e-300)
            bad = ~(np.abs(A - B) <= 1e-8 * scale) & ~(np.isnan(A) & np.isnan(B))
            if bad.any() and dep is not None:
                # a particle whose neighbour selection (own, or of a neighbour for coarse-grained values) is a tie may legitimately change
                kinds, nn, depth = dep
                for (k, i) in np.argwhere(bad):
                    old = int(tr.perm[i]) if tr.kind == "relabel" else int(i)
                    tie = haz.rank_tie(int(k), old, nn)
                    if not tie and depth:
                        D = haz.table(int(k))
                        if D is not None:
                            near = np.argsort(D[old])[1:nn + 2]
                            tie = any(haz.rank_tie(int(k), int(j), nn) for j in near)
                    if tie:
                        bad[k, i] = False
                        ctx.skip("values")
            ctx.mon("values")["comparisons"] += int(A.size)
            if bad.any():
                k, i = np.argwhere(bad)[0]
                ok_all = False
                ctx.violation(key + f"/perparticle:{name}", f"{obsname} under {tr.kind}: {name} of frame {k} particle {i} is {B[k, i]!r} after, "
                              f"{A[k, i]!r} before ({int(bad.sum())}/{A.size} entries differ)", info(), mon)
    if "sets" in r0:
        kindk, par = r0["sets_kind"]
        nbad = 0
        first = None
        for k, (S0, S1) in enumerate(zip(r0["sets"], r1["sets"])):
            N = len(S0)
            if tr.kind == "relabel":
                inv = np.empty(N, dtype=int)
                inv[tr.perm] = np.arange(N)
            for i in range(N):
                old = int(tr.perm[i]) if tr.kind == "relabel" else i
                exp = frozenset(int(inv[j]) for j in S0[old]) if tr.kind == "relabel" else S0[old]
                ctx.mon("values")["comparisons"] += 1
                if S1[i] != exp:
                    tie = haz.rank_tie(k, old, par) if kindk == "rank" else haz.cut_tie(k, old, par)
                    if tie:
                        ctx.skip("values")
                        continue
                    nbad += 1
                    first = first or (k, i, sorted(S1[i]), sorted(exp))
        if nbad:
            ok_all = False
            ctx.violation(key + "/neighbour_sets", f"{obsname} under {tr.kind}: {nbad} neighbour sets differ, first frame {first[0]} particle {first[1]}: "
                          f"{first[2]} after, expected {first[3]}", info(), mon)
    if "spectrum" in r0:
        (w0, p0), (w1, p1) = r0["spectrum"], r1["spectrum"]
        o0, o1 = np.argsort(w0), np.argsort(w1)
        w0s, w1s = w0[o0], w1[o1]
        scale = max(float(np.abs(w0s).max()), 1e-300)
        ctx.mon("values")["comparisons"] += len(w0s)
        # zero modes are computed as sqrt of round-off: compare eigenvalues (omega^2) at 1e-8 of the largest
        lam0, lam1 = np.sign(w0s) * w0s ** 2, np.sign(w1s) * w1s ** 2
        if len(w0s) != len(w1s) or not np.all(np.abs(lam0 - lam1) <= 1e-8 * scale ** 2):
            ok_all = False
            ctx.violation(key + "/spectrum", f"Hessian spectrum under {tr.kind}: max eigenvalue difference "
                          f"{np.abs(lam0 - lam1).max() if len(w0s) == len(w1s) else 'length'}", info(), mon)
        else:
            gap = np.minimum(np.diff(w0s, prepend=-np.inf), np.diff(w0s, append=np.inf))
            iso = gap > 1e-5 * scale
            ctx.mon("values")["comparisons"] += int(iso.sum())
            if not np.all(np.abs(p0[o0][iso] - p1[o1][iso]) <= 1e-6):
                ok_all = False
                ctx.violation(key + "/participation", f"participation ratios of non-degenerate modes differ under {tr.kind}", info(), mon)
    if "vector" in r0:
        x, y = r0["vector"], r1["vector"]
        ctx.mon("values")["comparisons"] += len(x)
        scale = max(float(np.abs(x).max()), 1e-300)
        if x.shape != y.shape or not np.all(np.abs(x - y) <= (1e-8 + P.get("vector_extra_rtol", 0.0)) * scale):
            ok_all = False
            ctx.violation(key + "/values", f"{obsname} under {tr.kind}: {x.tolist()} before, {y.tolist()} after", info(), mon)
    return ok_all


def inp_frames(info):
    return info()["frames"]


# ------------------------------------------------------------------ task list
def build_tasks(ctx):
    """(input spec, observable, [transformation kinds]) ; input spec = (label, builder)"""
    tasks = []
    th = ctx.thorough

    def add(label, obs, kinds=None, **par):
        for kind in (kinds or VALID[obs]):
            if kind == "rotate" and not label.startswith("open"):
                continue            # rotations are symmetries of open clusters only
            tasks.append((label, obs, kind, par))

    # --- repository sample trajectories (periodic)
    add("unary", "gr", rdelta=0.05)
    add("unary", "sq", qrange=3.0)
    add("unary", "nn", nn=12)
    add("unary", "boo3", nn=12, l=6)
    add("unary", "tetra", ["translate", "image", "relabel", "axes"])
    add("quarternary:2", "gr", rdelta=0.05)
    add("quarternary:2", "sq", qrange=2.5)
    add("2ddump.s:2", "gr", rdelta=0.05)
    add("2ddump.s:2", "sq", qrange=2.0)
    add("2ddump.s:2", "boo2", ["translate", "image", "relabel", "axes"], nn=6, l=6)
    add("2ddump.s:2", "cut", rc_nb=1.45)
    add("IS2DIPL", "gr", ["translate", "image", "relabel", "swap", "axes", "dilate"], rdelta=0.04)
    add("IS2DIPL", "boo2", ["translate", "image", "relabel", "axes"], nn=6, l=6)
    add("IS2DIPL", "nn", ["translate", "image", "relabel", "axes"], nn=6)
    add("3dkalj.s:2", "gr", rdelta=0.05)
    add("3dkalj.s:2", "sq", ["translate", "image", "relabel", "swap", "axes"], qrange=3.0)
    add("3dkalj.s:2", "boo3", ["translate", "image", "relabel", "axes"], nn=12, l=4)
    add("3dkalj.s:1", "tetra", ["translate", "image", "relabel", "axes"])
    add("2ddump.dyn", "relax", dyn_mode="both", qconst=6.28)
    add("2ddump.dyn", "relax", ["translate", "image", "relabel", "axes"], dyn_mode="x", qconst=6.28)
    add("3dkalj.dyn", "relax", dyn_mode="xu", qconst=7.25)
    add("3dkalj.dyn", "relax", ["translate", "image", "swap"], dyn_mode="x", qconst=7.25, cal_type="fast")
    # --- generated periodic systems
    add("gen3:liquid:200:2", "s2")
    add("gen2:liquid:200:2", "s2")
    add("gen3:liquid:90:2", "hessian", model="lennard_jones")
    add("gen2:liquid:90:2", "hessian", model="inverse_power_law")
    add("gen3:crystal:256:1", "boo3", ["translate", "image", "relabel", "axes"], nn=12, l=6)
    add("gen3:liquid:300:3", "gr", rdelta=0.07)
    add("gen2:liquid:300:3", "sq", qrange=3.0)
    add("gen3:liquid:150:1", "cut", rc_nb=1.9)
    add("gen3:liquid:300:5", "gr", ["swap", "relabel", "axes"], rdelta=0.07)
    add("gen2:liquid:300:4", "gr", ["swap", "relabel"], rdelta=0.07)
    add("gen3:liquid:250:5", "sq", ["swap", "relabel"], qrange=3.0)
    add("gen2:liquid:250:4", "sq", ["swap"], qrange=3.0)
    # --- generated triclinic cells (tilts of either sign): translations, whole-cell shifts, relabelling
    tri = ["translate", "image", "relabel"]
    add("tri3:liquid:250:2", "gr", tri + ["swap", "dilate"], rdelta=0.06)
    add("tri2:liquid:250:2", "gr", tri + ["dilate"], rdelta=0.06)
    add("tri3:liquid:200:1", "nn", tri, nn=12)
    add("tri2:liquid:200:1", "cut", tri, rc_nb=1.5)
    add("tri3:liquid:200:1", "boo3", tri, nn=12, l=6)
    add("tri2:liquid:200:1", "boo2", tri, nn=6, l=6)
    add("tri3:liquid:200:1", "tetra", tri)
    add("tri3:liquid:150:2", "s2", tri)
    add("tri2:liquid:90:2", "hessian", tri, model="lennard_jones")
    # --- sheared triclinic trajectories (three frames, an own tilt per frame at equal edge lengths)
    add("tri3s:liquid:150:2", "gr", tri + ["swap"], rdelta=0.06)
    add("tri2s:liquid:150:1", "cut", tri, rc_nb=1.5)
    add("tri3s:liquid:120:1", "nn", tri, nn=12)
    add("tri2s:liquid:150:1", "boo2", tri, nn=6, l=6)
    add("tri3s:liquid:120:2", "s2", tri)
    # --- open clusters: rotations
    add("open3:150", "boo3", ["rotate", "relabel"], nn=12, l=6)
    add("open3:150", "boo3", ["rotate"], nn=10, l=4)
    add("open3:150", "boo3", ["rotate", "relabel"], nn=12, l=5)       # odd degrees: the antisymmetry of the 3-j symbol makes w_l vanish
    add("open3:150", "boo3", ["rotate"], nn=9, l=3)
    add("unary", "boo3", ["translate", "axes"], nn=12, l=7)
    add("open3:150", "tetra", ["rotate", "relabel"])
    add("open3:150", "nn", ["rotate"], nn=8)
    add("open2:200", "boo2", ["rotate", "relabel"], nn=6, l=6)
    add("open2:200", "boo2", ["rotate"], nn=4, l=4)
    add("open3:150", "gyration")
    add("open2:200", "gyration")
    add("open3:3", "gyration")
    add("open2:2", "gyration")
    add("open3:9", "gyration")
    add("open3far:60", "gyration")
    add("open2far:40", "gyration")
    add("open3:150", "pr")
    add("open2:200", "pr")
    if th:
        add("ternary", "gr", ["translate", "swap", "axes"], rdelta=0.1)
        add("tri2d", "gr", ["translate", "image", "relabel"], rdelta=0.1)
        add("3dkalj.s:4", "sq", qrange=4.0)
        add("quarternary:10", "gr", rdelta=0.05)
        add("gen3:liquid:400:2", "s2")
        add("gen3:liquid:150:3", "hessian", model="lennard_jones")
    return tasks


def build_input(ctx, rng, label, par):
    """returns inp dict {x, xu, P}, d, N, K, T"""
    P = dict(par)
    parts = label.split(":")
    xu = None
    if parts[0] in ("unary", "quarternary", "2ddump.s", "IS2DIPL", "3dkalj.s", "ternary", "tri2d"):
        x, d = load(parts[0], int(parts[1]) if len(parts) > 1 else None)
    elif parts[0] == "2ddump.dyn":
        x, d = load("2ddump.s", 6)
        xu, _ = load("2ddump.u", 6)
    elif parts[0] == "3dkalj.dyn":
        x, d = load("3dkalj.s", 6)
        xu, _ = load("3dkalj.u", 6)
    elif parts[0].startswith("gen"):
        d = int(parts[0][3])
        x = generated(rng, d, int(parts[2]), int(parts[3]), parts[1])
    elif parts[0].startswith("tri") and parts[0] != "tri2d":
        d = int(parts[0][3])
        x = generated(rng, d, int(parts[2]), int(parts[3]), parts[1], triclinic=True, sheared=parts[0].endswith("s"))
    else:
        d = int(parts[0][4])
        x = generated(rng, d, int(parts[1]), 1, "liquid", open_cluster=True)
        if parts[0].endswith("far"):
            # the same cluster far away from the coordinate origin (a droplet in a huge open system): 1e4..1e6 cluster sizes away.
            # Coordinates then carry an absolute rounding of eps*|r|, so "to floating-point accuracy" means eps*|r|/size, set below.
            off = rng.normal(size=d)
            off *= 10.0 ** rng.uniform(4.5, 6.0) / np.linalg.norm(off)
            x = map_snaps(x, lambda k, s: remake(s, positions=s.positions + off, boxbounds=s.boxbounds + off[:, None]))
            size = float(np.ptp(x.snapshots[0].positions, axis=0).max())
            P["vector_extra_rtol"] = 2e3 * np.finfo(float).eps * float(np.linalg.norm(off)) / max(size, 1e-9)
    s0 = x.snapshots[0]
    N = s0.nparticle
    K = int(len(np.unique(s0.particle_type)))
    P["ppp"] = np.zeros(d, dtype=int) if parts[0].startswith("open") else np.ones(d, dtype=int)
    P["frame_constant_images"] = P.get("dyn_mode") in ("xu", "both")
    sym = lambda M: 0.5 * (M + M.T)  # noqa: E731
    P["sig"] = sym(rng.uniform(0.85, 1.1, size=(K, K)))
    P["eps"] = sym(rng.uniform(0.5, 2.0, size=(K, K)))
    P["rc"] = 2.2 * P["sig"]
    P["masses"] = {k: float(1.0 + 0.7 * k) for k in range(1, K + 1)}
    P["diam"] = {k: float(0.9 + 0.15 * k) for k in range(1, K + 1)}
    P["s2sig"] = sym(rng.uniform(0.1, 0.2, size=(K, K)))
    P["s2_rdelta"], P["s2_ndelta"] = 0.05, 60
    P["field"] = rng.normal(size=(N, d)) * np.exp(-3 * rng.random(N))[:, None]
    return {"x": x, "xu": xu, "P": P}, d, N, K, x.nsnapshots


ARRAY_FIELDS = ("positions", "particle_type", "hmatrix", "boxlength", "boxbounds", "realbounds")


def in_place(inp, inp1):
    """write the transformed configuration into the ORIGINAL snapshot objects' arrays; returns what is needed to undo it, or None when
    an array is read-only / changes shape (then the transformation cannot be done in place)"""
    todo = []
    for key in ("x", "xu"):
        a, b = inp.get(key), inp1.get(key)
        if a is None or b is None:
            continue
        if len(a.snapshots) != len(b.snapshots):
            return None
        for sa, sb in zip(a.snapshots, b.snapshots):
            for f in ARRAY_FIELDS:
                va, vb = getattr(sa, f), getattr(sb, f)
                if va is None and vb is None:
                    continue
                if va is None or vb is None or not isinstance(va, np.ndarray) or va.shape != np.shape(vb) or not va.flags.writeable:
                    return None
                todo.append((va, np.asarray(vb)))
    saved = [(va, va.copy()) for va, _ in todo]
    for va, vb in todo:
        va[...] = vb
    return saved


def restore(saved):
    for va, old in saved:
        va[...] = old


def run(ctx):
    from ..harness import fresh_dir, drop_dir
    wd = fresh_dir("c07")
    tasks = build_tasks(ctx)
    ctx.extra["triples_planned"] = len(tasks)
    reps = 1 if ctx.tier == "quick" else 3
    groups = {}
    for (label, obs, kind, par) in tasks:
        groups.setdefault((label, obs, tuple(sorted((k, str(v)) for k, v in par.items()))), []).append((label, obs, kind, par))
    glist = list(groups.values())
    # heavy inputs first, then round-robin, so that shards finish together
    glist.sort(key=lambda g: -len(g))
    mine = [t for i, g in enumerate(glist) if i % ctx.nshards == ctx.shard for t in g]
    cache = {}
    for (label, obs, kind, par) in mine:
        for rep in range(reps):
            rng = ctx.rng()
            ck = (label, obs, tuple(sorted((k, str(v)) for k, v in par.items())), rep)
            key = f"{obs}/{kind}"
            try:
                if ck not in cache:
                    inp, d, N, K, T_ = build_input(ctx, rng, label, par)
                    cache.clear()
                    cache[ck] = (inp, d, N, K, T_, None)
                inp, d, N, K, T_, r0 = cache[ck]
            except Exception as e:  # noqa: BLE001
                ctx.violation(f"{key}/input/raises:{type(e).__name__}", f"building input {label}: {type(e).__name__}: {e}", None, "exceptions")
                continue
            if kind == "swap" and K < 2:
                continue
            tr = make_transform(rng, kind, inp, d, N, K, T_)
            info = lambda: {"input": label, "observable": obs, "transformation": tr.describe(), "N": N, "d": d, "K": K, "frames": T_,  # noqa: E731
                            "parameters": {k: v for k, v in par.items()}}
            if r0 is None:
                ok0, r0 = ctx.call(key + "/untransformed", OBS[obs], inp, wd, data=info)
                if not ok0:
                    continue
                cache[ck] = (inp, d, N, K, T_, r0)
            inp1 = tr.apply(inp)
            ok1, r1 = ctx.call(key, OBS[obs], inp1, wd, data=info)
            ctx.case(f"{obs}/{kind}/{label.split(':')[0]}", label, obs, kind, str(tr.describe()), nontrivial=ok1,
                     sample={"input": label, "observable": obs, "transformation": tr.describe(), "N": N})
            if not ok1:
                continue
            haz = Hazard(inp, inp["P"]["ppp"])
            if compare(ctx, key, tr, r0, r1, haz, info, obs, inp["P"]):
                ctx.count(kind)
            # the same transformation carried out IN PLACE on the caller's own objects (a dilation / permutation / shift loop that reuses
            # its arrays): the analysis of the updated objects must obey the symmetry just the same -- nothing may be remembered under an
            # array's identity
            if np.random.default_rng([ctx.seed, ctx.shard, len(label), int(N), ctx.evaluations]).random() < 0.4:
                # the caller's objects are analysed once more immediately before they are updated, so that whatever the code may have
                # remembered last belongs to exactly these objects (a repeat: must also reproduce the first answer)
                okw, rw = ctx.call(key + "/repeat_before_update", OBS[obs], inp, wd, data=info)
                if okw:
                    compare(ctx, key + "/repeat_before_update", T("identity"), r0, rw, haz, info, obs, inp["P"])
                saved = in_place(inp, inp1)
                if saved is None:
                    ctx.skip("in_place")
                else:
                    try:
                        inp2 = {"P": inp1["P"], "x": inp.get("x"), "xu": inp.get("xu")}
                        ok2, r2 = ctx.call(key + "/in_place", OBS[obs], inp2, wd, data=info)
                    finally:
                        restore(saved)
                    if ok2 and compare(ctx, key + "/in_place", tr, r0, r2, haz, info, obs, inp["P"]):
                        ctx.count("in_place")
            if ctx.out_of_time():
                break
    drop_dir(wd)
