"""C03 — g(r): every total and partial column equals the normalised pair histogram."""
from __future__ import annotations

import os

import numpy as np

from ..gen import config as gc
from ..ref import gr as rgr

SPEC = {
    "quick_procs": 2, "thorough_procs": 16, "timeout_quick": 400, "timeout_thorough": 2400,
    "anchors": ["PyMatterSim.static.gr:gr.getresults", "PyMatterSim.static.gr:gr.unary", "PyMatterSim.static.gr:gr.binary",
                "PyMatterSim.static.gr:gr.ternary", "PyMatterSim.static.gr:gr.quarternary", "PyMatterSim.static.gr:gr.quinary",
                "PyMatterSim.utils.funcs:nidealfac"],
    "must_reach": ["PyMatterSim.static.gr:gr.unary", "PyMatterSim.static.gr:gr.binary", "PyMatterSim.static.gr:gr.ternary",
                   "PyMatterSim.static.gr:gr.quarternary", "PyMatterSim.static.gr:gr.quinary"],
    "floors": {"columns": 400, "layout": 100, "sum_rule": 80, "routing_probe": 35, "csv": 20, "same_binning_other_dimension": 10, "same_binning_same_dimension": 20,
               "configurations_with_coincident_sites": 2},
    "rule": ("{gas, perturbed lattice, clusters, hard-core} x K=1..6 x {2D,3D} x {orthogonal, triclinic +/-} x masks x "
             "bin widths x 1..4 frames x N 2..70, plus the exhaustive species-pair routing probe (35 pairs for K=1..5); "
             "non-trivial = at least one compared bin holds a pair and fewer than 20% of compared bins are tie-relaxed; "
             "distinct = digest of (positions, types, cell, mask, width)"),
    "assumptions": ["triclinic cells: only bins entirely below half the smallest perpendicular width are compared (R2)",
                    "bins with a pair distance within 1e-9 bin widths of an edge are compared as intervals (R1)",
                    "bin width <= L_min/4 so at least two bins exist"],
}


def compare_frame(ctx, res, ref, r, compare, relaxed, nb, K, key, info):
    cols = list(res.columns)
    exp_cols = ["r"] + list(ref.keys())
    ok = ctx.check("layout", cols == exp_cols and len(res) == nb, key + "/layout",
                   lambda: f"columns {cols} rows {len(res)}; expected {exp_cols} rows {nb}", info)
    if not ok:
        return False
    ctx.close("columns", res["r"].values, r, key + "/r", rtol=1e-10, what="bin centres", data=info, n=1)
    allok = True
    for c, (lo, hi) in ref.items():
        obs = res[c].values.astype(float)
        scale = max(1.0, float(np.max(hi)))
        tol = 1e-9 * scale
        bad = compare & ((obs < lo - tol) | (obs > hi + tol) | ~np.isfinite(obs))
        ctx.mon("columns")["comparisons"] += int(compare.sum())
        ctx.mon("columns")["skipped_ties"] += int((compare & relaxed).sum())
        if bad.any():
            k = int(np.argmax(bad))
            ctx.violation(f"{key}/column", f"column {c} bin {k}: got {obs[k]!r}, reference [{lo[k]!r}, {hi[k]!r}] "
                          f"({int(bad.sum())} bins differ)", {**info(), "column": c, "bin": k}, monitor="columns")
            allok = False
    return allok


def one_case(ctx, rng, wd, K=None, force=None, force_N=None):
    from PyMatterSim.static.gr import gr
    K = K or int(rng.choice([1, 2, 2, 3, 3, 4, 4, 5, 5, 6]))
    frames = int(rng.choice([1, 1, 2, 4]))
    retype = bool(frames > 1 and rng.random() < 0.35)
    if force_N:
        frames, retype = 1, False
    snaps, inf, cell = gc.static_system(rng, K=K, N=force_N, frames=frames, nmin=max(2, K), nmax=70 if not ctx.thorough else 110, retype=retype, vary_tilt=True,
                                        big="xl" if ctx.thorough else True, poskind="gas" if force_N else None)
    d = inf["d"]
    if rng.random() < 0.12 and not force_N:
        # the same trajectory in SI metres / in fm (R10): the bin width scales with it, g(r) is dimensionless
        snaps, cell, inf = gc.rescale_units(snaps, cell, inf, float(rng.choice([1e-9, 1e-10, 1e5])))
    ppp = gc.random_mask(rng, d)
    if rng.random() < 0.1 and inf["N"] >= 4 and all(s_.positions.flags.writeable for s_ in snaps.snapshots):
        # sites sitting EXACTLY on another particle (virtual / Drude / core-shell sites on their parent, shared sublattice sites): distinct
        # particles at zero separation are pairs like any other and belong to the first bin
        for s_ in snaps.snapshots:
            for _ in range(int(rng.integers(1, 4))):
                i_, j_ = rng.choice(inf["N"], size=2, replace=False)
                s_.positions[int(i_)] = s_.positions[int(j_)]
        ctx.count("configurations_with_coincident_sites")
    gc.unwrap_in_place(rng, snaps.snapshots, inf["Hs"], ppp)       # unwrapped coordinates: the same periodic configuration
    Lmin = float(np.min(np.diag(cell["H"])))
    w = float(rng.uniform(0.02, 0.25) * Lmin)
    w = min(w, Lmin / 4.000001)
    q = Lmin / 2.0 / w
    if abs(q - round(q)) < 1e-6:      # R3: keep the real quotient away from an integer
        w *= 1.0007
    types = snaps.snapshots[0].particle_type
    Kreal = len(np.unique(types))
    outfile = os.path.join(wd, "gr.csv") if rng.random() < 0.3 else None
    info = lambda: {"d": d, "N": inf["N"], "K": Kreal, "cell": inf["cell"], "pos": inf["pos"], "frames": frames, "ppp": ppp,  # noqa: E731
                    "rdelta": w, "H": inf["Hs"], "types": [s.particle_type for s in snaps.snapshots], "retyped_between_frames": retype,
                    "positions": [s.positions for s in snaps.snapshots] if inf["N"] <= 30 else "omitted(N>30)"}
    key = f"gr/K{min(Kreal, 6)}"
    again = bool(rng.random() < 0.3)       # history: the SAME object asked twice (a re-run notebook cell); the second answer is monitored

    def go():
        obj = gr(snaps, ppp=ppp, rdelta=w, outputfile=outfile)
        r_ = obj.getresults()
        if again:
            ctx.count("second_call_on_same_object")
            r_ = obj.getresults()
        return r_
    ok, res = ctx.call(key + ("/second_call" if again else ""), go, data=info)
    if not ok:
        ctx.case(f"K{Kreal}/{d}D/{inf['cell']}", nontrivial=False)
        return
    ref, r, compare, relaxed, nb = rgr.reference([s.positions for s in snaps.snapshots], [s.particle_type for s in snaps.snapshots], inf["Hs"], ppp, w, np.diag(cell["H"]))
    nz = bool(np.any(ref["gr"][1][compare] > 0))
    frac_rel = float((relaxed & compare).sum()) / max(1, int(compare.sum()))
    ctx.case(f"K{Kreal}/{d}D/{inf['cell']}", snaps.snapshots[0].positions, types, cell["H"], ppp, w,
             nontrivial=nz and frac_rel < 0.2,
             sample={"N": inf["N"], "K": Kreal, "d": d, "cell": inf["cell"], "pos": inf["pos"], "ppp": ppp, "rdelta": w,
                     "bins": nb, "compared_bins": int(compare.sum()), "frames": frames})
    if res is None:
        ctx.violation(key + "/none", "getresults returned None", info())
        return
    if not compare_frame(ctx, res, ref, r, compare, relaxed, nb, Kreal, key, info):
        return
    # oracle-free: composition sum rule on the outputs, every bin
    if 2 <= Kreal <= 5:
        N = inf["N"]
        c = {a: (types == a).sum() / N for a in range(1, Kreal + 1)}
        tot = np.zeros(len(res))
        for a in range(1, Kreal + 1):
            tot += c[a] ** 2 * res[f"gr{a}{a}"].values
            for b in range(a + 1, Kreal + 1):
                tot += 2 * c[a] * c[b] * res[f"gr{a}{b}"].values
        ctx.close("sum_rule", res["gr"].values, tot, key + "/sumrule", rtol=1e-9, atol=1e-12,
                  what="gr != sum_ab c_a c_b g_ab", data=info, n=1)
    if outfile:
        import pandas as pd
        back = pd.read_csv(outfile)
        good = list(back.columns) == list(res.columns) and len(back) == len(res)
        if good:
            good = bool(np.all(np.abs(back.values - res.values) <= 0.5e-6 + 1e-9 * np.abs(res.values)))
        ctx.check("csv", good, key + "/csv", "CSV differs from returned frame beyond %.6f", info)
        os.remove(outfile)
    u = rng.random()
    if u < 0.2:
        twin_case(ctx, rng, d, w, nb)
    elif u < 0.4:
        # a one-species system (its own density) and then a mixture, all with this binning and dimensionality
        twin_case(ctx, rng, d, w, nb, same_dim=True, K=1)
        twin_case(ctx, rng, d, w, nb, same_dim=True)



def twin_case(ctx, rng, d_prev, w, nb, same_dim=False, K=None):
    """history: another system analysed right after with exactly the same bin width and the same number of bins -- of the OTHER
    dimensionality, or of the same dimensionality with another density / species count (what a value remembered under
    (bins, width[, dimension]) would be reused for)"""
    from PyMatterSim.static.gr import gr
    d = d_prev if same_dim else 5 - d_prev
    K = K or int(rng.integers(1, 7))
    N = int(rng.integers(max(6, K), 40))
    Lmin = 2.0 * w * (nb + 0.5)
    cell = gc.make_cell(rng, d, "ortho", lmin=Lmin, lmax=Lmin * 1.3)
    cell["H"][0, 0] = cell["L"][0] = Lmin
    f = gc.make_frac(rng, d, N, "gas")
    types = gc.make_types(rng, N, K)
    snaps = gc.snapshots_from([gc.snapshot_from(cell, f, types)])
    ppp = np.ones(d, dtype=int)
    Kreal = len(np.unique(types))
    info = lambda: {"twin_of_dimension": d_prev, "d": d, "N": N, "K": Kreal, "rdelta": w, "bins": nb, "H": cell["H"], "types": types,  # noqa: E731
                    "positions": snaps.snapshots[0].positions if N <= 30 else "omitted"}
    key = f"gr/K{min(Kreal, 6)}/same_binning_" + ("same_dimension" if same_dim else "other_dimension")
    ok, res = ctx.call(key, lambda: gr(snaps, ppp=ppp, rdelta=w).getresults(), data=info)
    ctx.case(f"twin/{d}D", snaps.snapshots[0].positions, types, w, nontrivial=True)
    if not ok or res is None:
        return
    ref, r, compare, relaxed, nb2 = rgr.reference([snaps.snapshots[0].positions], [types], [cell["H"]], ppp, w, np.diag(cell["H"]))
    if nb2 != nb:
        return
    if compare_frame(ctx, res, ref, r, compare, relaxed, nb2, Kreal, key, info):
        ctx.count("same_binning_same_dimension" if same_dim else "same_binning_other_dimension")


def routing_probe(ctx):
    """for every K in 1..5 and every unordered species pair: only that pair is within range."""
    from PyMatterSim.static.gr import gr
    SingleSnapshot, Snapshots = gc.records()
    w = 0.25
    for d in (3, 2):
        for K in range(1, 6):
            for a in range(1, K + 1):
                for b in range(a, K + 1):
                    # one particle per species, species a (and b) get the probed partner
                    types = list(range(1, K + 1)) + ([a] if a == b else [])
                    n = len(types)
                    Lx = 12.0 * (n + 2)
                    L = np.array([Lx, 10.0, 10.0][:d])
                    pos = np.zeros((n, d))
                    pos[:, 0] = 12.0 * np.arange(n) + 1.0
                    pos[:, 1] = 3.0
                    r0 = 1.13 + 0.37 * (a + 5 * b) % 3.3
                    i = a - 1
                    j = (b - 1) if a != b else n - 1
                    pos[j] = pos[i]
                    pos[j, 1] += r0
                    order = np.argsort([(t * 7919) % 13 for t in range(n)])  # fixed shuffle of ids
                    pos, tarr = pos[order], np.array(types)[order]
                    s = SingleSnapshot(timestep=0, nparticle=n, particle_type=tarr, positions=pos, boxlength=L,
                                       boxbounds=np.column_stack([np.zeros(d), L]), realbounds=None, hmatrix=np.diag(L))
                    snaps = Snapshots(nsnapshots=1, snapshots=[s])
                    key = f"gr/K{K}/routing"
                    info = lambda: {"K": K, "pair": (a, b), "d": d, "types": tarr, "positions": pos, "L": L, "r0": r0}  # noqa: E731
                    ok, res = ctx.call(key, lambda: gr(snaps, ppp=np.ones(d, dtype=int), rdelta=w).getresults(), data=info)
                    ctx.case(f"routing/K{K}", pos, tarr, nontrivial=True)
                    if not ok:
                        continue
                    kbin = int(r0 / w)
                    good = True
                    msg = ""
                    for c in res.columns:
                        if c == "r":
                            continue
                        nzb = np.nonzero(res[c].values)[0]
                        if c in ("gr", f"gr{a}{b}"):
                            if list(nzb) != [kbin]:
                                good = False
                                msg += f" {c}: non-zero bins {list(nzb)} expected [{kbin}];"
                        elif len(nzb):
                            good = False
                            msg += f" {c}: unexpectedly non-zero at {list(nzb)};"
                    ctx.check("routing_probe", good, key, lambda: f"pair ({a},{b}) of K={K}:{msg}", info)


def run(ctx):
    from ..harness import fresh_dir, drop_dir
    wd = fresh_dir("c03")
    if ctx.shard == 0:
        routing_probe(ctx)
    if ctx.shard == 0 or ctx.thorough:
        # two systems far beyond the usual size (block-wise / cell-list evaluation boundaries)
        for K_ in ((2, 5) if ctx.thorough else (5,)):
            one_case(ctx, ctx.rng(), wd, K=K_, force_N=int(ctx.rng().choice([1100, 1500])))
            ctx.count("systems_over_1000_particles")
    n = ctx.n(150, 400)
    for i in range(n):
        rng = ctx.rng()
        # make sure every K is hit early in every shard
        one_case(ctx, rng, wd, K=(i % 6) + 1 if i < 12 else None)
        if ctx.out_of_time():
            break
    drop_dir(wd)
