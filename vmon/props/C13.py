"""C13 — conditional g(r) and S(q) equal the weighted definitions and reduce to the partials."""
from __future__ import annotations

import numpy as np

from ..gen import config as gc
from ..ref import geom
from ..ref import gr as rgr

SPEC = {
    "quick_procs": 2, "thorough_procs": 16, "timeout_quick": 400, "timeout_thorough": 2400,
    "anchors": ["PyMatterSim.static.gr:conditional_gr", "PyMatterSim.static.sq:conditional_sq"],
    "must_reach": ["PyMatterSim.static.gr:conditional_gr", "PyMatterSim.static.sq:conditional_sq"],
    "floors": {"sq_huge": 500, "reused_arrays": 60, "gA": 800, "gr_column": 800, "gA_norm": 20, "positions_updated_in_place": 60, "single_precision_coordinates": 20, "gA_norm_fields_with_small_relative_variance": 3, "gA_norm_small_amplitude_fields": 3, "sq_pervector": 1000, "sq_average": 300,
               "reduce_partial_gr": 15, "reduce_partial_sq": 20, "reduce_total": 50, "reduce_components": 80},
    "rule": ("single configurations x condition kinds {bool, float, complex128, real vector, complex vector, symmetric tensor, "
             "general tensor} x {2D,3D} x {orthogonal, triclinic (g only)} x masks x bin widths x integer wave-vector lists; "
             "non-trivial = N>=4 and some compared bin holds a pair; distinct = digest of (positions, condition, cell, parameters)"),
    "assumptions": ["R1/R2 as for C03", "tensor weight = trace(A_i A_j) as documented (no conjugation)",
                    "boolean selections keep at least 2 particles"],
}


def weights_matrix(A, kind):
    if kind in ("bool", "float", "int", "complex", "complex64"):
        a = A.astype(np.int32) if kind == "bool" else (A.astype(np.float64) if kind == "int" else A)
        return np.real(np.conj(a)[:, None] * a[None, :])          # w_ij = Re(A_j conj A_i)
    if kind in ("vector", "cvector"):
        return np.real(np.einsum("ia,ja->ij", np.conj(A), A))
    return np.real(np.einsum("iab,jba->ij", A, A))                # trace(A_i A_j)


def make_condition(rng, N, d, kind, types=None):
    if kind == "bool":
        if types is not None and rng.random() < 0.6:
            a = int(rng.choice(np.unique(types)))
            c = types == a
            if c.sum() >= 2:
                return c
        c = rng.random(N) < rng.uniform(0.3, 0.9)
        c[:2] = True
        return c
    if kind == "float":
        u = rng.random()
        if u < 0.15:
            return float(rng.choice([50.0, -300.0, 1e4])) + float(rng.choice([0.1, 1.0])) * rng.normal(size=N)     # a field on a large offset (a temperature, a potential energy): variance far below mean^2
        if u < 0.3:
            return float(10.0 ** rng.uniform(-7, -4)) * (rng.normal(size=N) + rng.uniform(-2, 2))                    # a small-amplitude field (displacements in SI units, a strain)
        return rng.normal(size=N) + rng.uniform(-2, 2)
    if kind == "int":            # integer-valued scalar stored as integers (charges, spins, coordination numbers)
        c = rng.integers(-3, 7, size=N).astype(rng.choice([np.int64, np.int32]))
        c[0], c[1] = 2, -1
        return c
    if kind == "complex":
        return (rng.normal(size=N) + 1j * rng.normal(size=N)).astype(np.complex128)
    if kind == "complex64":      # single-precision complex field: values exactly representable, so only the convention matters
        return (np.round(rng.normal(size=N) * 8) / 8 + 1j * np.round(rng.normal(size=N) * 8) / 8).astype(np.complex64)
    if kind == "vector":
        return rng.normal(size=(N, d))
    if kind == "cvector":
        return rng.normal(size=(N, d)) + 1j * rng.normal(size=(N, d))
    T = rng.normal(size=(N, d, d))
    if kind == "symtensor":
        T = 0.5 * (T + np.swapaxes(T, 1, 2))
    return T


def represent(A, h):
    """the caller's condition array in another in-memory representation: fresh copy, read-only, or a strided view"""
    r = h % 4
    if r == 1:
        B = A.copy()
        B.setflags(write=False)
        return B
    if r == 2:
        big = np.zeros((2 * A.shape[0] + 1,) + A.shape[1:], dtype=A.dtype)
        big[1::2] = A
        return big[1::2]
    return A.copy()


def case_gr(ctx, rng):
    from PyMatterSim.static.gr import conditional_gr, gr
    kind = str(rng.choice(["bool", "bool", "float", "float", "complex", "complex64", "vector", "cvector", "symtensor", "tensor", "int"]))
    K = int(rng.integers(1, 4))
    snaps, inf, cell = gc.static_system(rng, K=K, frames=1, nmin=max(3, K), nmax=40 if kind.endswith("tensor") else 60, big=not kind.endswith("tensor"))
    if rng.random() < 0.12:
        snaps, cell, inf = gc.rescale_units(snaps, cell, inf, float(rng.choice([1e-9, 1e-10, 1e5])))     # another unit of length (R10)
    s = snaps.snapshots[0]
    d, N = inf["d"], inf["N"]
    types = s.particle_type
    ppp = gc.random_mask(rng, d)
    gc.unwrap_in_place(rng, [s], cell["H"], ppp)       # unwrapped coordinates
    Lmin = float(np.min(np.diag(cell["H"])))
    w = min(float(rng.uniform(0.03, 0.25) * Lmin), Lmin / 4.000001)
    if abs(Lmin / 2 / w - round(Lmin / 2 / w)) < 1e-6:
        w *= 1.0007
    A = make_condition(rng, N, d, kind, types)
    ctype = {"vector": "vector", "cvector": "vector", "symtensor": "tensor", "tensor": "tensor"}.get(kind)
    info = lambda: {"kind": kind, "d": d, "N": N, "cell": inf["cell"], "ppp": ppp, "rdelta": w, "H": cell["H"],  # noqa: E731
                    "positions": s.positions if N <= 25 else "omitted", "condition": A if N <= 25 else "omitted"}
    key = f"conditional_gr/{kind}"
    Acall = represent(A, N + int(10 * w * 1000))
    if rng.random() < 0.3:
        # history: the SAME snapshot object analysed immediately before with the same bin width and ANOTHER periodicity mask (slab vs bulk)
        if rng.random() < 0.5:
            other = ppp.copy()
            ax = int(rng.integers(0, d))
            other[ax] = 1 - other[ax]
            ctx.call(key + "/prior_call_other_mask", conditional_gr, s, Acall, ctype, other, w, data=info)
            ctx.count("prior_call_other_mask")
        else:
            # ... or with the same mask and ANOTHER bin width that happens to give the same number of bins (a scan over widths)
            nb_ = int(Lmin / 2.0 / w)
            w2 = Lmin / 2.0 / (nb_ + float(rng.uniform(0.15, 0.85)))
            if abs(w2 - w) > 1e-6 * w and int(Lmin / 2.0 / w2) == nb_:
                ctx.call(key + "/prior_call_other_width", conditional_gr, s, Acall, ctype, ppp, w2, data=info)
                ctx.count("prior_call_other_width_same_bins")
    ok, res = ctx.call(key, conditional_gr, s, Acall, ctype, ppp, w, data=info)
    if ok and rng.random() < 0.35:
        # history: the caller keeps its arrays and calls again -- the second answer must be the same table
        ok_b, res_b = ctx.call(key + "/reused_arrays", conditional_gr, s, Acall, ctype, ppp, w, data=info)
        if ok_b:
            ctx.check("reused_arrays", list(res_b.columns) == list(res.columns) and np.array_equal(res_b.values, res.values, equal_nan=True),
                      key + "/reused_arrays", "second call with the same (caller-owned) condition array returns another table", info)
    nb = int(Lmin / 2.0 / w)
    vec, dist, _ = geom.pair_table(s.positions, cell["H"], ppp)
    off = ~np.eye(N, dtype=bool)
    V = abs(np.linalg.det(cell["H"]))
    vs = rgr.shell(d, w, nb)
    lo, hi, relaxed = rgr.histogram_interval(dist[off], w, nb)
    if geom.is_orthogonal(cell["H"]):
        compare = np.ones(nb, dtype=bool)
    else:
        compare = (np.arange(nb) + 1) * w <= geom.agreement_radius(cell["H"], ppp)
    ctx.case(f"gr/{kind}/{d}D/{inf['cell']}", s.positions, A, cell["H"], ppp, w,
             nontrivial=N >= 4 and bool(hi[compare].sum() > 0),
             sample={"kind": kind, "N": N, "d": d, "cell": inf["cell"], "ppp": ppp, "rdelta": w})
    if not ok:
        return
    cols = ["r", "gr", "gA"] + (["gA_norm"] if kind in ("float", "int") else [])
    if not ctx.check("gr_column", list(res.columns) == cols and len(res) == nb, key + "/layout",
                     lambda: f"columns {list(res.columns)} rows {len(res)} expected {cols} rows {nb}", info):
        return
    ctx.close("gr_column", res["r"].values, (np.arange(nb) + 0.5) * w, key + "/r", rtol=1e-10, what="bin centres", data=info, n=1)
    Wm = weights_matrix(A, kind)
    Nn = int(A.sum()) if kind == "bool" else N
    wlo, whi, _ = rgr.histogram_interval(dist[off], w, nb, weights=Wm[off])
    for col, (a, b), norm in (("gr", (lo, hi), V / (N * N) / vs), ("gA", (wlo, whi), V / (Nn * Nn) / vs)):
        obs = res[col].values.astype(float)
        scale = max(1.0, float(np.abs(b * norm).max()), float(np.abs(a * norm).max()))
        bad = compare & ((obs < a * norm - 1e-9 * scale) | (obs > b * norm + 1e-9 * scale) | ~np.isfinite(obs))
        m = ctx.mon("gA" if col == "gA" else "gr_column")
        m["comparisons"] += int(compare.sum())
        m["skipped_ties"] += int((compare & relaxed).sum())
        if bad.any():
            k = int(np.argmax(bad))
            ctx.violation(f"{key}/{col}", f"{col} bin {k}: got {obs[k]!r}, reference [{(a * norm)[k]!r}, {(b * norm)[k]!r}]",
                          info(), monitor="gA" if col == "gA" else "gr_column")
            return
    if kind in ("float", "int"):
        Af = A.astype(np.float64)
        m1, m2 = Af.mean() ** 2, (Af ** 2).mean()
        exp = (res["gA"].values - m1) / (m2 - m1)
        cancel = max(1.0, m2 / max(m2 - m1, 1e-300))          # <A^2>/var: the subtraction loses this many units of round-off
        if cancel > 1e3:
            ctx.count("gA_norm_fields_with_small_relative_variance")
        if float(np.abs(Af).max()) < 1e-3:
            ctx.count("gA_norm_small_amplitude_fields")
        ctx.close("gA_norm", res["gA_norm"].values, exp, key + "/gA_norm", rtol=1e-9 + 1e-14 * cancel, atol=1e-12 + 1e-14 * cancel, what="gA_norm", data=info, n=1)
    # ---- reductions on the real code
    if kind == "bool" and set(np.unique(types[A])) == {types[A][0]} and A.sum() == (types == types[A][0]).sum():
        a = int(types[A][0])
        Kr = len(np.unique(types))
        if Kr <= 5:
            ok2, full = ctx.call("gr/reduction", lambda: gr(snaps, ppp=ppp, rdelta=w).getresults(), data=info)
            if ok2:
                col = "gr" if Kr == 1 else f"gr{a}{a}"
                ctx.close("reduce_partial_gr", res["gA"].values, full[col].values, key + "/reduces_to_partial", rtol=1e-9, atol=1e-12,
                          what=f"boolean species mask vs partial {col}", data=info, n=1)
    if kind == "float" and rng.random() < 0.5:
        ok2, r1 = ctx.call(key, conditional_gr, s, np.ones(N), None, ppp, w, data=info)
        if ok2:
            ctx.close("reduce_total", r1["gA"].values, r1["gr"].values, key + "/ones_reduce_to_total", rtol=1e-9, atol=1e-12,
                      what="A=1 vs total g(r)", data=info, n=1)
    if kind in ("vector", "cvector"):
        tot = np.zeros(nb)
        good = True
        for a in range(d):
            comp = A[:, a].astype(np.complex128) if kind == "cvector" else A[:, a].copy()
            ok2, rc = ctx.call(key, conditional_gr, s, comp, None, ppp, w, data=info)
            good &= ok2
            if ok2:
                tot += rc["gA"].values
        if good:
            ctx.close("reduce_components", res["gA"].values, tot, key + "/sum_of_components", rtol=1e-9, atol=1e-10,
                      what="vector field vs sum over components", data=info, n=1)


    updated_in_place_gr(ctx, rng, conditional_gr, s, cell, A, Acall, ctype, kind, ppp, w, nb, compare, Nn, key, info)


def updated_in_place_gr(ctx, rng, conditional_gr, s, cell, A, Acall, ctype, kind, ppp, w, nb, compare, Nn, key, info):
    """history: the particles of the SAME snapshot object are moved in place (a frame streamed into a reused buffer -- the only way to
    update a frozen record) and the same request is made again: the answer belongs to the configuration the object holds now"""
    if not s.positions.flags.writeable or rng.random() > 0.25:
        return
    N, d = s.positions.shape
    newpos = cell["origin"] + rng.random((N, d)) @ cell["H"]
    s.positions[...] = newpos
    ok, res = ctx.call(key + "/positions_updated_in_place", conditional_gr, s, Acall, ctype, ppp, w, data=info)
    if not ok:
        return
    _vec, dist, _ = geom.pair_table(newpos, cell["H"], ppp)
    off = ~np.eye(N, dtype=bool)
    V = abs(np.linalg.det(cell["H"]))
    vs = rgr.shell(d, w, nb)
    wlo, whi, _ = rgr.histogram_interval(dist[off], w, nb, weights=weights_matrix(A, kind)[off])
    norm = V / (Nn * Nn) / vs
    obs = res["gA"].values.astype(float) if "gA" in res.columns and len(res) == nb else np.full(nb, np.nan)
    scale = max(1.0, float(np.abs(whi * norm).max()), float(np.abs(wlo * norm).max()))
    bad = compare & ((obs < wlo * norm - 1e-9 * scale) | (obs > whi * norm + 1e-9 * scale) | ~np.isfinite(obs))
    ctx.check("positions_updated_in_place", not bad.any(), key + "/positions_updated_in_place",
              lambda: f"after the snapshot's positions were updated in place gA bin {int(np.argmax(bad))} is {obs[int(np.argmax(bad))]!r}, "
                      f"reference [{(wlo * norm)[int(np.argmax(bad))]!r}, {(whi * norm)[int(np.argmax(bad))]!r}]", info)


def case_sq(ctx, rng):
    from PyMatterSim.static.sq import conditional_sq, sq
    kind = str(rng.choice(["bool", "bool", "float", "complex", "vector", "int"]))
    K = int(rng.integers(1, 4))
    d = int(rng.choice([2, 3]))
    snaps, inf, cell = gc.static_system(rng, d=d, K=K, cellkind="ortho", frames=1, nmin=max(3, K), nmax=60, big=True)
    s = snaps.snapshots[0]
    N = inf["N"]
    if (N + K + d) % 6 == 0:
        # coordinates in single precision (what the GSD reader hands over); the transform is defined on the values as they are
        SingleSnapshot, Snapshots = gc.records()
        s = SingleSnapshot(timestep=s.timestep, nparticle=s.nparticle, particle_type=s.particle_type, positions=np.asarray(s.positions).astype(np.float32),
                           boxlength=s.boxlength, boxbounds=s.boxbounds, realbounds=None, hmatrix=s.hmatrix)
        snaps = Snapshots(nsnapshots=1, snapshots=[s])
        ctx.count("single_precision_coordinates")
    types = s.particle_type
    L = np.diag(cell["H"]).copy()
    M = int(rng.integers(3, 30))
    nv = rng.integers(-5, 6, size=(M, d))
    nv = nv[(nv != 0).any(axis=1)]
    if rng.random() < 0.5:
        nv = np.vstack([nv, -nv[: len(nv) // 2]])
    nv = np.unique(nv, axis=0)
    nv = nv[rng.permutation(len(nv))]
    A = make_condition(rng, N, d, kind, types)
    info = lambda: {"kind": kind, "d": d, "N": N, "L": L, "qvectors": nv, "positions": s.positions if N <= 25 else "omitted",  # noqa: E731
                    "condition": A if N <= 25 else "omitted"}
    key = f"conditional_sq/{kind}"
    share = bool(rng.random() < 0.4)
    qarr = nv.astype(np.float64) if share else nv.copy()      # caller-owned wave-vector array, float or int
    Acall = represent(A, N + len(nv))
    if (N + len(nv)) % 5 == 0:
        qarr.setflags(write=False)
    ok, out = ctx.call(key, conditional_sq, s, qarr, Acall, data=info)
    if ok and share:
        # history: the same caller-owned arrays are handed in again (a loop over conditions / frames reuses one qvector array)
        ok_b, out_b = ctx.call(key + "/reused_arrays", conditional_sq, s, qarr, Acall, data=info)
        if ok_b:
            ctx.check("reused_arrays", np.array_equal(out_b[0].values, out[0].values, equal_nan=True) and
                      np.array_equal(out_b[1].values, out[1].values, equal_nan=True), key + "/reused_arrays",
                      "second call with the same (caller-owned, float64) wave-vector array returns other tables", info)
    ctx.case(f"sq/{kind}/{d}D", s.positions, A, L, nv, nontrivial=N >= 4 and len(nv) >= 3,
             sample={"kind": kind, "N": N, "d": d, "L": L, "n_qvectors": len(nv)})
    if not ok:
        return
    per, ave = out
    q = 2 * np.pi * nv / L[None, :]
    qn = np.linalg.norm(q, axis=1)
    ph = np.exp(-1j * (np.asarray(s.positions, dtype=np.float64) @ q.T))                 # (N, M)
    if kind == "bool":
        F = ph[A].sum(axis=0) / np.sqrt(A.sum())
        S = np.abs(F) ** 2
        Fcols = {"FFT": F}
    elif kind == "vector":
        F = (ph[:, :, None] * A[:, None, :]).sum(axis=0) / np.sqrt(N)       # (M, d)
        S = (np.abs(F) ** 2).sum(axis=1)
        Fcols = {f"FFT{a}": F[:, a] for a in range(d)}
    else:
        F = (ph * A[:, None]).sum(axis=0) / np.sqrt(N)
        S = np.abs(F) ** 2
        Fcols = {"FFT": F}
    cols = [f"q{a}" for a in range(d)] + ["q", "Sq"] + list(Fcols)
    if not ctx.check("sq_pervector", list(per.columns) == cols and len(per) == len(nv), key + "/layout",
                     lambda: f"columns {list(per.columns)} rows {len(per)}; expected {cols} rows {len(nv)}", info):
        return
    sc = max(1.0, float(S.max()))
    ctx.close("sq_pervector", per[[f"q{a}" for a in range(d)]].values, q, key + "/qvectors", rtol=0, atol=1e-8, what="q components", data=info, n=1)
    ctx.close("sq_pervector", per["Sq"].values, S, key + "/Sq", rtol=1e-9, atol=0.5e-8 + 1e-12, scale=sc, what="per-vector S", data=info)
    for c, f in Fcols.items():
        ctx.close("sq_pervector", per[c].values.astype(complex), f, key + "/FFT", rtol=1e-9, atol=1e-8, scale=max(1.0, np.abs(f).max()),
                  what=f"returned transform {c}", data=info)
    srt = np.sort(qn)
    gaps = np.diff(srt)
    if np.any((gaps > 1e-9) & (gaps < 1e-6)):
        ctx.skip("sq_average")
    else:
        uq = np.unique(np.round(qn, 8))
        exp = np.array([S[np.abs(qn - v) < 5e-7].mean() for v in uq])
        if ctx.check("sq_average", list(ave.columns) == ["q", "Sq"] and len(ave) == len(uq), key + "/average_layout",
                     lambda: f"average frame columns {list(ave.columns)} rows {len(ave)}; expected {len(uq)}", info):
            ctx.close("sq_average", ave["Sq"].values, exp, key + "/average", rtol=1e-9, atol=0.5e-8 + 1e-12, scale=sc,
                      what="|q|-averaged S", data=info)
    # ---- reductions on the real code
    if kind == "bool" and A.sum() == (types == types[A][0]).sum() and len(set(types[A])) == 1:
        a = int(types[A][0])
        Kr = len(np.unique(types))
        ok2, full = ctx.call("sq/reduction", lambda: sq(snaps, qvector=nv.copy()).getresults(), data=info)
        if ok2 and not np.any((gaps > 1e-9) & (gaps < 1e-4)):
            col = "Sq" if Kr == 1 else f"Sq{a}{a}"
            ctx.close("reduce_partial_sq", ave["Sq"].values, full[col].values, key + "/reduces_to_partial", rtol=1e-9, atol=1.1e-6,
                      what=f"boolean species mask vs partial {col}", data=info, n=1)
    if kind == "float":
        ok2, o1 = ctx.call(key, conditional_sq, s, nv.copy(), np.ones(N), data=info)
        ok3, full = ctx.call("sq/reduction", lambda: sq(snaps, qvector=nv.copy()).getresults(), data=info)
        if ok2 and ok3 and not np.any((gaps > 1e-9) & (gaps < 1e-4)):
            ctx.close("reduce_total", o1[1]["Sq"].values, full["Sq"].values, key + "/ones_reduce_to_total", rtol=1e-9, atol=1.1e-6,
                      what="A=1 vs total S(q)", data=info, n=1)
    if kind == "vector":
        tot = np.zeros(len(nv))
        good = True
        for a in range(d):
            ok2, oc = ctx.call(key, conditional_sq, s, nv.copy(), A[:, a].copy(), data=info)
            good &= ok2
            if ok2:
                tot += oc[0]["Sq"].values
        if good:
            ctx.close("reduce_components", per["Sq"].values, tot, key + "/sum_of_components", rtol=1e-9, atol=2e-8 * d, scale=sc,
                      what="vector field vs sum over components", data=info, n=1)


    # history: positions of the SAME snapshot object updated in place, same wave vectors, same condition
    if s.positions.flags.writeable and rng.random() < 0.35:
        newpos = cell["origin"] + rng.random((N, d)) * L
        s.positions[...] = newpos
        newpos = np.asarray(s.positions, dtype=np.float64)          # what the object holds now (single-precision storage rounds)
        ok_u, out_u = ctx.call(key + "/positions_updated_in_place", conditional_sq, s, qarr, Acall, data=info)
        if ok_u:
            ph2 = np.exp(-1j * (newpos @ q.T))
            if kind == "bool":
                S2 = np.abs(ph2[A].sum(axis=0) / np.sqrt(A.sum())) ** 2
            elif kind == "vector":
                S2 = (np.abs((ph2[:, :, None] * A[:, None, :]).sum(axis=0) / np.sqrt(N)) ** 2).sum(axis=1)
            else:
                S2 = np.abs((ph2 * A[:, None]).sum(axis=0) / np.sqrt(N)) ** 2
            ctx.close("positions_updated_in_place", out_u[0]["Sq"].values, S2, key + "/positions_updated_in_place", rtol=1e-9, atol=0.5e-8 + 1e-12,
                      scale=max(1.0, float(S2.max())), what="per-vector S after the snapshot's positions were updated in place", data=info)


def huge_sq(ctx, rng):
    """one system far beyond the usual size: particles x wave vectors well above 2^22 (block-wise / chunked evaluation boundaries)"""
    from PyMatterSim.static.sq import conditional_sq
    d = 3
    N = int(rng.choice([9000, 12000]))
    kind = str(rng.choice(["bool", "float", "vector"]))
    cell = gc.make_cell(rng, d, "ortho", lmin=18.0, lmax=24.0)
    L = np.diag(cell["H"]).copy()
    snap = gc.snapshot_from(cell, rng.random((N, d)), np.ones(N, dtype=int), layout="plain")
    g = np.arange(-4, 5)
    nv = np.array([[a, b, c] for a in g for b in g for c in g if (a, b, c) != (0, 0, 0)])[: 700 if N == 9000 else 520]
    A = make_condition(rng, N, d, kind, None)
    ok, out = ctx.call(f"conditional_sq/{kind}/huge", conditional_sq, snap, nv.copy(), A.copy(), data={"N": N, "nq": len(nv), "kind": kind})
    ctx.case(f"sq/{kind}/huge", N, len(nv), nontrivial=True)
    if not ok:
        return
    per = out[0]
    q = 2 * np.pi * nv / L[None, :]
    S = np.zeros(len(nv))
    Fv = np.zeros((len(nv), d), dtype=complex)
    Fs = np.zeros(len(nv), dtype=complex)
    for a in range(0, N, 1500):                     # block-wise reference with an unrelated block size
        ph = np.exp(-1j * (snap.positions[a:a + 1500] @ q.T))
        Ab = A[a:a + 1500]
        if kind == "vector":
            Fv += (ph[:, :, None] * Ab[:, None, :]).sum(axis=0)
        elif kind == "bool":
            Fs += ph[Ab].sum(axis=0)
        else:
            Fs += (ph * Ab[:, None]).sum(axis=0)
    if kind == "vector":
        S = (np.abs(Fv / np.sqrt(N)) ** 2).sum(axis=1)
    elif kind == "bool":
        S = np.abs(Fs / np.sqrt(A.sum())) ** 2
    else:
        S = np.abs(Fs / np.sqrt(N)) ** 2
    ctx.close("sq_huge", per["Sq"].values, S, f"conditional_sq/{kind}/huge/Sq", rtol=1e-8, atol=0.5e-8 + 1e-12, scale=max(1.0, float(S.max())),
              what=f"per-vector S, {N} particles x {len(nv)} wave vectors", data={"N": N, "nq": len(nv), "kind": kind})


def run(ctx):
    if ctx.shard in (0, 1) or ctx.thorough:
        huge_sq(ctx, ctx.rng())
    n = ctx.n(600, 800)
    for i in range(n):
        case_gr(ctx, ctx.rng())
        case_sq(ctx, ctx.rng())
        if ctx.out_of_time():
            break
