"""C19 — header writer, auxiliary readers and the dump reader agree on the same data."""
from __future__ import annotations

import os
import re
import types as _types

import numpy as np

from ..gen import dump as gd

_A = "PyMatterSim.reader.lammps_reader_helper:"
SPEC = {
    "quick_procs": 1, "thorough_procs": 16, "timeout_quick": 400, "timeout_thorough": 2400,
    "anchors": ["PyMatterSim.writer.lammps_writer:write_dump_header", "PyMatterSim.writer.lammps_writer:write_data_header",
                _A + "read_lammps_centertype", _A + "read_lammps_centertype_wrapper", _A + "read_lammps_vector",
                _A + "read_lammps_vector_wrapper", _A + "read_additions", "PyMatterSim.reader.gsd_reader_helper:read_gsd",
                "PyMatterSim.reader.gsd_reader_helper:read_gsd_dcd", "PyMatterSim.reader.simulation_log:read_lammpslog"],
    "must_reach": ["PyMatterSim.writer.lammps_writer:write_dump_header", "PyMatterSim.writer.lammps_writer:write_data_header",
                   _A + "read_lammps_centertype", _A + "read_lammps_vector", _A + "read_additions",
                   "PyMatterSim.reader.gsd_reader_helper:read_gsd", "PyMatterSim.reader.gsd_reader_helper:read_gsd_dcd",
                   "PyMatterSim.reader.simulation_log:read_lammpslog"],
    "floors": {"roundtrip_header": 1500, "roundtrip_atoms": 500, "additions": 300, "vector_columns": 500, "data_header": 200,
               "centertype": 1500, "gsd": 1000, "gsd_dcd": 1000, "log_sections": 500, "log_values": 300,
               "log_real_columns_starting_with_a_whole_number": 100, "consecutive_frames_with_equal_timesteps": 50},
    "insitu": (),
    "rule": ("writer->reader round trips: timestep 0..1e9, N 1..40, bounds of any origin, {2D,3D}, additional column names, 1..4 "
             "frames, atom lines in any id order; read_additions for every zero-based column, read_lammps_vector for random 1-based "
             "column lists (also through DumpReader); write_data_header parsed by an own reader of the LAMMPS data grammar; "
             "molecule-centre reader on x / xs / xu dumps with random type maps (also empty selections per frame excluded); "
             "duck-typed HOOMD frame sequences (float32 positions, uint32 typeid, 6-component box) with and without a DCD object; "
             "LAMMPS logs with 1..5 complete run sections of random width/length between the usual chatter; "
             "non-trivial = N>=2 (dumps), T>=1 frames (HOOMD), >=1 section with >=2 rows (logs); distinct = digest of the file text / frames"),
    "assumptions": ["log sections use the classic layout (header line starting with 'Step ' in column 0, section closed by a "
                    "'Loop time of' line); incomplete trailing sections are not claimed",
                    "the header writer prints bounds with 6 decimals: bounds are compared at 0.5e-6",
                    "HOOMD frames are duck-typed objects (gsd / mdtraj are not installed): the library-side parsing of gsd and dcd "
                    "files is outside the property"],
}


# ------------------------------------------------------------------ writer -> reader round trip
def gen_bounds(rng, d):
    L = rng.uniform(0.5, 40.0, size=d)
    kind = str(rng.choice(["zero", "neg", "large", "asym", "centred"]))
    if kind == "zero":
        lo = np.zeros(d)
    elif kind == "neg":
        lo = -rng.uniform(0.1, 1.0, size=d) * L
    elif kind == "large":
        lo = rng.uniform(100, 5000, size=d) * rng.choice([-1, 1], size=d)
    elif kind == "centred":
        lo = -L / 2
    else:
        lo = rng.uniform(-7, 7, size=d)
    return np.column_stack([lo, lo + L]), kind


def roundtrip_case(ctx, rng, wd, i):
    from PyMatterSim.writer.lammps_writer import write_dump_header
    from PyMatterSim.reader.lammps_reader_helper import read_lammps_wrapper, read_additions, read_lammps_vector_wrapper
    from PyMatterSim.reader.dump_reader import DumpReader
    from PyMatterSim.reader.reader_utils import DumpFileType
    d = int(rng.choice([2, 3]))
    N = int(rng.choice([1, 2, 3, 5, 8, 13, 21, 40]))
    nframes = int(rng.choice([1, 1, 2, 3, 4]))
    nextra = int(rng.choice([0, 1, 2, 3]))
    names = [str(rng.choice(["order", "Q6", "vx", "vy", "vz", "c_pe", "f_ave[1]", "radius"])) + (str(k) if k else "") for k in range(nextra)]
    addson = " ".join(names) if names else (None if rng.random() < 0.5 else "")
    ts = np.cumsum(rng.integers(1, 10 ** int(rng.integers(1, 9)), size=nframes)).astype(int)
    if nframes > 1 and rng.random() < 0.25:
        # restarted runs re-dump the restart step, reset_timestep: consecutive frames with the SAME timestep are frames like any other
        j_ = int(rng.integers(1, nframes))
        ts[j_] = ts[j_ - 1]
        ctx.count("consecutive_frames_with_equal_timesteps")
    if rng.random() < 0.3:
        ts[0] = 0
    text, truth = [], []
    # history: the caller keeps ONE box object (array or nested list) for the whole trajectory and updates it in place before each
    # frame is written (an NPT / deforming run): every header must carry the bounds the object holds at the time of the call
    shared = None
    if rng.random() < 0.4:
        shared = np.zeros((d, 2)) if rng.random() < 0.6 else [[0.0, 0.0] for _ in range(d)]
    for k in range(nframes):
        bounds, okind = gen_bounds(rng, d)
        as_list = rng.random() < 0.3
        if shared is None:
            barg = bounds.tolist() if as_list else bounds
        else:
            for a_ in range(d):
                shared[a_][0], shared[a_][1] = float(bounds[a_, 0]), float(bounds[a_, 1])
            barg = shared
            ctx.count("box_object_updated_in_place")
        ok, hdr = ctx.call("write_dump_header", write_dump_header, int(ts[k]), N, barg, addson,
                           data={"timestep": int(ts[k]), "N": N, "bounds": bounds, "addson": addson, "same_box_object_updated_in_place": shared is not None})
        if not ok:
            return
        if not ctx.check("roundtrip_header", isinstance(hdr, str) and hdr.endswith("\n"), "write_dump_header/type", "header is not a newline-terminated string"):
            return
        pb = np.array([[float("%.6f" % v) for v in row] for row in bounds])     # what the header prints
        # strictly inside the printed bounds, also after the %.8g rounding of the atom lines (a coordinate outside would be wrapped
        # by the reader, which is the reader's documented behaviour, not a round-trip error)
        pos = pb[:, 0] + (0.002 + 0.996 * rng.random((N, d))) * (pb[:, 1] - pb[:, 0])
        types = rng.integers(1, 5, size=N)
        extra = rng.normal(size=(N, nextra)) * 10.0 ** rng.integers(-3, 4)
        ptok = [["%.8g" % v for v in row] for row in pos]
        etok = [["%.7g" % v for v in row] for row in extra]
        order = rng.permutation(N) if rng.random() < 0.6 else np.arange(N)
        lines = [" ".join([str(a + 1), str(int(types[a]))] + ptok[a] + etok[a]) + "\n" for a in order]
        text.append(hdr + "".join(lines))
        truth.append({"bounds": bounds, "types": types, "pos": np.array([[float(t) for t in r] for r in ptok]).reshape(N, d),
                      "extra": np.array([[float(t) for t in r] for r in etok]).reshape(N, nextra)})
    text = "".join(text)
    path = os.path.join(wd, "rt.dump")
    with open(path, "w") as f:
        f.write(text)
    info = lambda: {"d": d, "N": N, "frames": nframes, "addson": addson, "file_text": text[:5000]}  # noqa: E731
    ctx.case(f"roundtrip/{d}D/extra={nextra}", text, nontrivial=N >= 2,
             sample={"d": d, "N": N, "frames": nframes, "addson": addson, "head": text[:400]})
    via_class = i % 3 == 0
    key = "roundtrip"
    if via_class:
        def go():
            r = DumpReader(path, ndim=d, filetype=DumpFileType.LAMMPS)
            r.read_onefile()
            return r.snapshots
        ok, snaps = ctx.call(key + "/read", go, data=info)
    else:
        ok, snaps = ctx.call(key + "/read", read_lammps_wrapper, path, d, data=info)
    if ok and ctx.check("roundtrip_header", snaps is not None and snaps.nsnapshots == nframes and len(snaps.snapshots) == nframes,
                        key + "/framecount", lambda: f"{getattr(snaps, 'nsnapshots', None)} frames read back, {nframes} written", info):
        for k, (s, tr) in enumerate(zip(snaps.snapshots, truth)):
            ctx.check("roundtrip_header", s.timestep == int(ts[k]) and s.nparticle == N, key + "/header",
                      lambda: f"frame {k}: timestep {s.timestep} / nparticle {s.nparticle} read back, wrote {int(ts[k])} / {N}", info)
            bb = np.asarray(s.boxbounds, float)
            if ctx.check("roundtrip_header", bb.shape == (d, 2), key + "/bounds/shape", lambda: f"frame {k}: boxbounds shape {bb.shape}", info):
                ctx.close("roundtrip_header", bb, tr["bounds"], key + "/bounds", rtol=1e-15, atol=0.5000001e-6, scale=float(np.abs(tr["bounds"]).max()),
                          what=f"frame {k}: box bounds read back vs written", data=info, n=1)
            ctx.check("roundtrip_atoms", np.array_equal(np.asarray(s.particle_type), tr["types"]) and
                      np.asarray(s.positions).shape == (N, d) and np.array_equal(np.asarray(s.positions), tr["pos"]),
                      key + "/atoms", lambda: f"frame {k}: per-id types / positions differ from the atom lines", info)
    # ---- additional columns: read_additions (zero-based column number, every frame, by id)
    from PyMatterSim.reader.lammps_reader_helper import read_additions as ra
    for c in range(nextra):
        ncol = 2 + d + c
        ok, arr = ctx.call("read_additions", ra, path, ncol, data=info)
        if ok:
            exp = np.array([tr["extra"][:, c] for tr in truth])
            arr = np.asarray(arr)
            ctx.check("additions", arr.shape == exp.shape and np.array_equal(arr, exp), "read_additions/values",
                      lambda: f"column {ncol} ('{names[c]}'): shape {arr.shape} vs {exp.shape}; first frame got {arr[0][:4].tolist() if arr.size else []} "
                              f"expected {exp[0][:4].tolist()}", info)
    if rng.random() < 0.5:     # coordinates and type are columns too
        ncol = int(rng.integers(1, 2 + d))
        ok, arr = ctx.call("read_additions", ra, path, ncol, data=info)
        if ok:
            exp = np.array([(tr["types"] if ncol == 1 else tr["pos"][:, ncol - 2]) for tr in truth], dtype=float)
            ctx.check("additions", np.asarray(arr).shape == exp.shape and np.array_equal(np.asarray(arr), exp), "read_additions/values",
                      lambda: f"column {ncol}: differs from the atom lines", info)
    # ---- column reader: 1-based column ids
    ncols_total = 2 + d + nextra
    k = int(rng.integers(1, min(4, ncols_total - 2) + 1))
    cols = sorted(rng.choice(np.arange(3, ncols_total + 1), size=k, replace=False).tolist()) if rng.random() < 0.7 else \
        rng.choice(np.arange(3, ncols_total + 1), size=k, replace=False).tolist()
    cols = [int(c) for c in cols]
    if ncols_total - 2 >= 2 and rng.random() < 0.4:
        # history: the same file read immediately before for ANOTHER column list (other columns / the same in another order)
        other = [int(c) for c in rng.permutation(np.arange(3, ncols_total + 1))[: max(1, k)]]
        if other == cols:
            other = other[::-1] if len(other) > 1 else [3 + (other[0] - 2) % (ncols_total - 2)]
        ctx.call("read_lammps_vector/prior_call", read_lammps_vector_wrapper, path, d, other, data=lambda: {**info(), "columnsids": other})
        ctx.count("prior_call_one_argument_changed")
    if via_class:
        def go2():
            r = DumpReader(path, ndim=d, filetype=DumpFileType.LAMMPSVECTOR, columnsids=cols)
            r.read_onefile()
            return r.snapshots
        ok, vs = ctx.call("read_lammps_vector", go2, data=lambda: {**info(), "columnsids": cols})
    else:
        ok, vs = ctx.call("read_lammps_vector", read_lammps_vector_wrapper, path, d, cols, data=lambda: {**info(), "columnsids": cols})
    if ok and ctx.check("vector_columns", vs is not None and vs.nsnapshots == nframes and len(vs.snapshots) == nframes,
                        "read_lammps_vector/framecount", lambda: f"{getattr(vs, 'nsnapshots', None)} frames for {nframes}", info):
        for kf, (s, tr) in enumerate(zip(vs.snapshots, truth)):
            full = np.column_stack([np.arange(1, N + 1), tr["types"], tr["pos"], tr["extra"]])
            exp = full[:, [c - 1 for c in cols]]
            got = np.asarray(s.positions)
            ctx.check("vector_columns", got.shape == exp.shape and np.array_equal(got, exp) and s.timestep == int(ts[kf]) and
                      s.nparticle == N and np.array_equal(np.asarray(s.particle_type), tr["types"]),
                      "read_lammps_vector/values", lambda: f"frame {kf} columns {cols}: got {got[:2].tolist()} expected {exp[:2].tolist()}; "
                                                           f"timestep {s.timestep} nparticle {s.nparticle}", info)
            bb = np.asarray(s.boxbounds, float)
            if bb.shape == (d, 2):
                ctx.close("vector_columns", bb, tr["bounds"], "read_lammps_vector/bounds", rtol=1e-15, atol=0.5000001e-6,
                          scale=float(np.abs(tr["bounds"]).max()), what=f"frame {kf}: bounds", data=info, n=1)
            else:
                ctx.check("vector_columns", False, "read_lammps_vector/bounds", f"boxbounds shape {bb.shape}", info)
    os.remove(path)


# ------------------------------------------------------------------ data header
DATA_BOX = {}


def data_header_case(ctx, rng):
    from PyMatterSim.writer.lammps_writer import write_data_header
    d = int(rng.choice([2, 3]))
    N = int(rng.integers(1, 10 ** int(rng.integers(1, 7))))
    K = int(rng.integers(1, 9))
    bounds, _ = gen_bounds(rng, d)
    barg = bounds if rng.random() < 0.7 else bounds.tolist()
    if rng.random() < 0.4:
        # the caller's long-lived box array of this dimension, updated in place since the last header was written
        barg = DATA_BOX.setdefault(d, np.zeros((d, 2)))
        barg[:] = bounds
        ctx.count("box_object_updated_in_place")
    ok, h = ctx.call("write_data_header", write_data_header, N, K, barg,
                     data={"N": N, "K": K, "bounds": bounds})
    ctx.case(f"data_header/{d}D", N, K, bounds, nontrivial=True, sample={"N": N, "K": K, "bounds": bounds})
    if not ok:
        return
    info = lambda: {"N": N, "K": K, "bounds": bounds, "header": h}  # noqa: E731
    # own reader of the LAMMPS data-file header grammar: first line is a title; then keyword lines in any order until a section name
    lines = h.split("\n")
    good = isinstance(h, str) and len(lines) > 3 and lines[0].strip() != "" and lines[1].strip() == ""
    got = {}
    section = None
    for ln in lines[1:]:
        t = ln.split("#")[0].split()
        if not t:
            continue
        if len(t) == 2 and t[1] == "atoms":
            got["atoms"] = int(t[0])
        elif len(t) == 3 and t[1:] == ["atom", "types"]:
            got["types"] = int(t[0])
        elif len(t) == 4 and t[2:] in (["xlo", "xhi"], ["ylo", "yhi"], ["zlo", "zhi"]):
            got[t[2][0]] = (float(t[0]), float(t[1]))
        elif t[0] == "Atoms":
            section = ln
            break
        else:
            good = False
    good = good and section is not None and h.endswith("\n\n") and got.get("atoms") == N and got.get("types") == K
    good = good and all(a in got for a in "xyz")
    if good:
        for k, a in enumerate("xyz"[:d]):
            good = good and abs(got[a][0] - bounds[k, 0]) <= 0.5000001e-6 and abs(got[a][1] - bounds[k, 1]) <= 0.5000001e-6
        if d == 2:
            good = good and got["z"] == (-0.5, 0.5)
    ctx.check("data_header", bool(good), "write_data_header/content", lambda: f"header does not encode N={N}, K={K}, bounds={bounds.tolist()}: {h!r}", info)


# ------------------------------------------------------------------ molecule-centre reader
def centertype_case(ctx, rng, wd, i):
    from PyMatterSim.reader.lammps_reader_helper import read_lammps_centertype_wrapper
    from PyMatterSim.reader.dump_reader import DumpReader
    from PyMatterSim.reader.reader_utils import DumpFileType
    d = int(rng.choice([2, 3]))
    coord = str(rng.choice(["x", "xs", "xu"]))
    K = int(rng.integers(2, 7))
    nframes = int(rng.choice([1, 2, 3]))
    N = int(rng.integers(K, 41))
    fmt = str(rng.choice(["repr", "g", "e"]))
    okind = str(rng.choice(["zero", "neg", "large", "asym", "centred"]))
    nkeys = int(rng.integers(1, K + 1))
    keys = sorted(int(v) for v in rng.choice(np.arange(1, K + 1), size=nkeys, replace=False))
    if rng.random() < 0.5:
        labels = list(range(1, nkeys + 1))
    else:
        labels = [int(v) for v in rng.integers(1, 9, size=nkeys)]        # arbitrary, possibly many-to-one relabelling
        if rng.random() < 0.4:
            labels = [int(v) for v in rng.integers(-1, 4, size=nkeys)]   # zero-based molecule species (label 0), also -1: values are just values
            ctx.count("type_map_with_zero_or_negative_labels")
    moltypes = dict(zip(keys, labels))
    frames = []
    for _ in range(nframes):
        fr = gd.gen_frame_truth(rng, d, coord, "ortho", N, K, fmt, okind)
        if not np.isin(fr["types"], keys).any():
            fr["types"][rng.integers(0, N)] = keys[0]
        if rng.random() < 0.3:
            fr["types"][: K] = np.arange(1, K + 1)          # every species present
        frames.append(fr)
    ts = np.cumsum(rng.integers(1, 5000, size=nframes)) - (1 if rng.random() < 0.3 else 0)
    if nframes > 1 and rng.random() < 0.25:
        j_ = int(rng.integers(1, nframes))
        ts[j_] = ts[j_ - 1]             # the restart step dumped twice
    order = str(rng.choice(["sorted", "reversed", "random", "mixed"]))
    text, _ = gd.emit(rng, frames, ts, order, int(rng.integers(0, 3)), False, "pp pp pp", str(rng.choice(["single", "double", "tab"])))
    path = os.path.join(wd, "mol.dump")
    with open(path, "w") as f:
        f.write(text)
    info = lambda: {"d": d, "coord": coord, "moltypes": moltypes, "order": order, "file_text": text[:5000]}  # noqa: E731
    ctx.case(f"centertype/{d}D/{coord}", text, moltypes, nontrivial=N >= 2,
             sample={"d": d, "coord": coord, "moltypes": moltypes, "N": N, "frames": nframes})
    key = f"read_lammps_centertype/{coord}"
    if rng.random() < 0.4 and len(moltypes) >= 1:
        # history: the same file read immediately before with ANOTHER type map (values exchanged / one key dropped)
        ks = list(moltypes)
        other = {k_: moltypes[ks[(j_ + 1) % len(ks)]] + (1 if len(ks) == 1 else 0) for j_, k_ in enumerate(ks)}
        ctx.call(key + "/prior_call", read_lammps_centertype_wrapper, path, d, other, data=info)
        ctx.count("prior_call_one_argument_changed")
    if i % 3 == 0:
        def go():
            r = DumpReader(path, ndim=d, filetype=DumpFileType.LAMMPSCENTER, moltypes=dict(moltypes))
            r.read_onefile()
            return r.snapshots
        ok, snaps = ctx.call(key, go, data=info)
    else:
        ok, snaps = ctx.call(key, read_lammps_centertype_wrapper, path, d, dict(moltypes), data=info)
    os.remove(path)
    if not ok:
        return
    if not ctx.check("centertype", snaps is not None and snaps.nsnapshots == nframes and len(snaps.snapshots) == nframes,
                     key + "/framecount", lambda: f"{getattr(snaps, 'nsnapshots', None)} frames for {nframes}", info):
        return
    for k, (fr, s) in enumerate(zip(frames, snaps.snapshots)):
        sel = np.isin(fr["types"], keys)
        exp_types = np.array([moltypes[int(t)] for t in fr["types"][sel]])
        got_t = np.asarray(s.particle_type)
        good = s.timestep == int(ts[k]) and s.nparticle == int(sel.sum()) and got_t.shape == exp_types.shape and np.array_equal(got_t, exp_types)
        ctx.check("centertype", bool(good), key + "/selection",
                  lambda: f"frame {k}: timestep {s.timestep} (file {int(ts[k])}), nparticle {s.nparticle} (selected {int(sel.sum())}), "
                          f"types {got_t[:10].tolist()} expected {exp_types[:10].tolist()}", info)
        pos = np.asarray(s.positions, float)
        if not ctx.check("centertype", pos.shape == (int(sel.sum()), d), key + "/posshape", lambda: f"frame {k}: positions shape {pos.shape}", info):
            continue
        lo, hi, L = fr["rlo"][:d], fr["rhi"][:d], fr["L"][:d]
        scale = max(np.abs(lo).max(), np.abs(hi).max(), 1.0)
        inp = fr["pf"][sel][:, :d]
        if coord == "xu":
            ctx.check("centertype", np.array_equal(pos, inp), key + "/positions", lambda: f"frame {k}: unwrapped coordinates not verbatim", info)
        elif coord == "xs":
            ctx.close("centertype", pos, lo + inp * L, key + "/positions", rtol=1e-12, scale=scale, what=f"frame {k}: scaled->Cartesian with origin", data=info, n=1)
        else:
            tol = 8 * np.finfo(float).eps * scale
            diff = pos - inp
            c1 = bool(np.all((pos >= lo - tol) & (pos <= hi + tol)))
            c2 = bool(np.all((np.abs(diff) <= tol) | (np.abs(np.abs(diff) - L) <= tol)))
            inside = (inp >= lo) & (inp <= hi)
            c3 = bool(np.all(diff[inside] == 0)) if inside.any() else True
            ctx.check("centertype", c1 and c2 and c3, key + "/positions",
                      lambda: f"frame {k}: wrapped coordinates inside_box={c1} moved_by_0_or_L={c2} inside_unchanged={c3}", info)
        bb = np.asarray(s.boxbounds, float)
        ctx.check("centertype", bb.shape == (d, 2) and np.array_equal(bb, fr["boxf"][:d, :2]) and
                  np.allclose(np.asarray(s.boxlength, float), L, rtol=0, atol=1e-12 * scale) and
                  np.allclose(np.asarray(s.hmatrix, float), np.diag(L), rtol=0, atol=1e-12 * scale), key + "/cell",
                  lambda: f"frame {k}: bounds / lengths / h-matrix differ from the file", info)


# ------------------------------------------------------------------ HOOMD frames (duck-typed)
class FakeTrajectory:
    """what gsd.hoomd.open returns, reduced to what the property quantifies over: len, indexing, iteration."""

    def __init__(self, frames):
        self._frames = frames
        self.iterations = 0

    def __len__(self):
        return len(self._frames)

    def __getitem__(self, i):
        return self._frames[i]

    def __iter__(self):
        self.iterations += 1
        return iter(self._frames)


class FakeDCD:
    def __init__(self, xyz, lengths, angles):
        self._data = (xyz, lengths, angles)
        self.reads = 0

    def read(self, *a, **k):
        self.reads += 1
        return self._data

    def close(self):
        pass


def make_hoomd(rng, d, T, N):
    frames = []
    step = int(rng.integers(0, 10 ** 6))
    for _ in range(T):
        L = rng.uniform(3, 30, size=3).astype(np.float32)
        if d == 2:
            L[2] = 0.0 if rng.random() < 0.5 else 1.0
        box = np.array([L[0], L[1], L[2], 0.0, 0.0, 0.0], dtype=np.float32)
        pos = ((rng.random((N, 3)) - 0.5) * L).astype(np.float32)
        if d == 2:
            pos[:, 2] = 0.0
        typeid = rng.integers(0, int(rng.integers(1, 5)), size=N).astype(np.uint32)
        fr = _types.SimpleNamespace(
            configuration=_types.SimpleNamespace(dimensions=d, box=box, step=step),
            particles=_types.SimpleNamespace(N=N, typeid=typeid, position=pos, types=["A", "B", "C", "D"]))
        frames.append(fr)
        step += int(rng.integers(1, 10 ** 5)) if rng.random() < 0.8 else 0        # (frames that carry the same step are frames like any other)
    return frames


def gsd_case(ctx, rng, i):
    from PyMatterSim.reader.gsd_reader_helper import read_gsd, read_gsd_dcd
    d = int(rng.choice([2, 3]))
    T = int(rng.choice([1, 2, 3, 5, 8]))
    N = int(rng.integers(1, 30))
    frames = make_hoomd(rng, d, T, N)
    keep = [(_f.particles.typeid.copy(), _f.particles.position.copy(), _f.configuration.box.copy()) for _f in frames]
    info = lambda: {"d": d, "T": T, "N": N, "steps": [f.configuration.step for f in frames],  # noqa: E731
                    "typeid": [k[0] for k in keep][:3], "position": [k[1] for k in keep][:2]}
    with_dcd = i % 2 == 1
    ctx.case(f"hoomd/{d}D/" + ("gsd+dcd" if with_dcd else "gsd"), [k[1] for k in keep], [k[0] for k in keep], with_dcd, nontrivial=T >= 1,
             sample={"d": d, "T": T, "N": N, "with_dcd": with_dcd})
    mon = "gsd_dcd" if with_dcd else "gsd"
    key = "read_gsd_dcd" if with_dcd else "read_gsd"
    if with_dcd:
        # DCD holds the unwrapped positions: different from the gsd ones (offset by whole boxes and by drift)
        xyz = np.array([k[1] + rng.integers(-2, 3, size=(N, 3)) * k[2][:3] + rng.normal(0, 0.1, size=(N, 3)) for k in keep]).astype(np.float32)
        if d == 2:
            xyz[:, :, 2] = 0.0
        dcd = FakeDCD(xyz, np.array([k[2][:3] for k in keep]), np.full((T, 3), 90.0))
        ok, snaps = ctx.call(key, read_gsd_dcd, FakeTrajectory(frames), dcd, d, data=info)
    else:
        xyz = None
        ok, snaps = ctx.call(key, read_gsd, FakeTrajectory(frames), d, data=info)
    if not ok:
        return
    if not ctx.check(mon, snaps is not None and getattr(snaps, "nsnapshots", None) == T and len(snaps.snapshots) == T, key + "/framecount",
                     lambda: f"returned {type(snaps).__name__} with nsnapshots={getattr(snaps, 'nsnapshots', None)} for {T} frames", info):
        return
    for k, (s, fr, kp) in enumerate(zip(snaps.snapshots, frames, keep)):
        good = s.timestep == fr.configuration.step and s.nparticle == N
        pt = np.asarray(s.particle_type)
        good = good and pt.shape == (N,) and np.array_equal(pt.astype(np.int64), kp[0].astype(np.int64) + 1)
        ctx.check(mon, bool(good), key + "/types", lambda: f"frame {k}: timestep {s.timestep}, nparticle {s.nparticle}, types {pt[:8].tolist()} "
                                                            f"for typeid {kp[0][:8].tolist()}", info)
        exp = (xyz[k] if with_dcd else kp[1])[:, :d]
        pos = s.positions
        ctx.check(mon, pos is not None and np.asarray(pos).shape == (N, d) and np.array_equal(np.asarray(pos), exp), key + "/positions",
                  lambda: f"frame {k}: positions {None if pos is None else np.asarray(pos)[:2].tolist()} expected {exp[:2].tolist()}", info)
        bl = np.asarray(s.boxlength)
        ctx.check(mon, bl.shape == (d,) and np.array_equal(bl, kp[2][:d]) and np.asarray(s.hmatrix).shape == (d, d) and
                  np.array_equal(np.asarray(s.hmatrix), np.diag(kp[2][:d])), key + "/box", lambda: f"frame {k}: boxlength {bl.tolist()} for box {kp[2].tolist()}", info)
        # the frame objects themselves must not have been altered (typeid + 1 out of place)
        ctx.check(mon, np.array_equal(fr.particles.typeid, kp[0]) and np.array_equal(fr.particles.position, kp[1]), key + "/frames_untouched",
                  f"frame {k}: the HOOMD frame object was modified", info)
    # wrong dimension -> no Snapshots (documented: returns None after a warning)
    if i % 5 == 0:
        other = 5 - d
        try:
            r = read_gsd_dcd(FakeTrajectory(frames), FakeDCD(xyz, None, None), other) if with_dcd else read_gsd(FakeTrajectory(frames), other)
            ctx.check(mon, r is None, key + "/wrong_ndim", f"ndim={other} for {d}-dimensional frames returned {type(r).__name__}", info)
        except Exception as e:  # noqa: BLE001
            ctx.violation(key + f"/wrong_ndim/raises:{type(e).__name__}", f"{type(e).__name__}: {e}", info(), "exceptions")


# ------------------------------------------------------------------ log reader
CHATTER = ["LAMMPS (2 Aug 2023 - Update 3)", "  using 1 OpenMP thread(s) per MPI task", "Reading data file ...", "  orthogonal box = (0 0 0) to (16.796 16.796 16.796)",
           "  1 by 2 by 2 MPI processor grid", "Neighbor list info ...", "  update: every = 1 steps, delay = 0 steps, check = yes",
           "Setting up Verlet run ...", "  Unit style    : lj", "  Current step  : 0", "  Time step     : 0.005",
           "Per MPI rank memory allocation (min/avg/max) = 3.108 | 3.108 | 3.108 Mbytes", "WARNING: Communication cutoff is shorter than a bond length",
           "run 1000", "thermo 100", "fix 1 all nve", "Stepwise refinement disabled", "Steps per second are reported below"]
TAIL = ["Performance: 330075.402 tau/day, 764.063 timesteps/s, 3.056 Matom-step/s", "99.8% CPU use with 1 MPI tasks x 1 OpenMP threads", "",
        "MPI task timing breakdown:", "Section |  min time  |  avg time  |  max time  |%varavg| %total", "---------------------------------------------------------------",
        "Pair    | 0.97318    | 0.97318    | 0.97318    |   0.0 | 74.36", "Neigh   | 0.26326    | 0.26326    | 0.26326    |   0.0 | 20.11", "",
        "Nlocal:           4000 ave        4000 max        4000 min", "Histogram: 1 0 0 0 0 0 0 0 0 0", "Total # of neighbors = 151513", "Neighbor list builds = 5", "Dangerous builds = 0"]
COLS = ["Temp", "E_pair", "E_mol", "TotEng", "Press", "Volume", "PotEng", "KinEng", "Lx", "Density", "c_msd[4]", "v_fraction", "Pxy", "Enthalpy", "CPU"]


def log_case(ctx, rng, wd):
    from PyMatterSim.reader.simulation_log import read_lammpslog
    nsec = int(rng.integers(1, 6))
    out, truth = [], []
    for ln in rng.choice(CHATTER, size=int(rng.integers(0, 8))):
        out.append(ln)
    for s in range(nsec):
        ncol = int(rng.integers(1, 9))
        cols = ["Step"] + [str(c) for c in rng.choice(COLS, size=ncol, replace=False)]
        nrow = int(rng.choice([1, 2, 3, 5, 11, 30, 60]))
        step0 = int(rng.integers(0, 10 ** 6))
        every = int(rng.choice([1, 10, 100, 5000]))
        steps = step0 + every * np.arange(nrow)
        vals = rng.normal(size=(nrow, ncol)) * 10.0 ** rng.integers(-3, 5, size=ncol)
        intcol = rng.random(ncol) < 0.15
        vals[:, intcol] = np.round(vals[:, intcol])
        if rng.random() < 0.35 and nrow >= 2:
            # a run started from rest / from a perfect lattice: real-valued columns (Temp, Press, KinEng, Msd) whose FIRST row prints as a
            # whole number ("0", "1", "10", "-3") while every later row has decimals
            for c_ in np.flatnonzero(rng.random(ncol) < 0.5):
                if not intcol[c_]:
                    vals[0, c_] = float(rng.choice([0.0, 0.0, 1.0, 10.0, -3.0, 300.0]))
            ctx.count("log_real_columns_starting_with_a_whole_number")
        style = str(rng.choice(["classic", "wide"]))
        out.append(" ".join(cols) + (" " if rng.random() < 0.5 else ""))
        toks = []
        for r in range(nrow):
            row = ["%d" % steps[r]] + [("%d" % v if ic else ("%.8g" % v)) for v, ic in zip(vals[r], intcol)]
            toks.append(row)
            out.append(("%8s " % row[0] + " ".join("%12s" % t for t in row[1:])) if style == "classic" else "   ".join(row))
        truth.append((cols, np.array([[float(t) for t in row] for row in toks])))
        out.append("Loop time of %.6g on %d procs for %d steps with %d atoms" % (rng.uniform(0.01, 500), int(rng.choice([1, 4, 16])), every * max(nrow - 1, 1), int(rng.integers(10, 10 ** 5))))
        if rng.random() < 0.7:
            out.append("")
        for ln in TAIL[: int(rng.integers(0, len(TAIL) + 1))]:
            out.append(ln)
        for ln in rng.choice(CHATTER, size=int(rng.integers(0, 6))):
            out.append(ln)
        if rng.random() < 0.3:
            out.append("")
    out.append(str(rng.choice(["Total wall time: 0:00:05", "", "Total wall time: 1:20:33"])))
    text = "\n".join(out) + "\n"
    path = os.path.join(wd, "log.lammps")
    with open(path, "w") as f:
        f.write(text)
    info = lambda: {"sections": nsec, "rows": [len(t[1]) for t in truth], "file_text": text[:6000]}  # noqa: E731
    ctx.case(f"log/sections={nsec}", text, nontrivial=any(len(t[1]) >= 2 for t in truth), sample={"sections": nsec, "rows": [len(t[1]) for t in truth], "head": text[:500]})
    ok, res = ctx.call("read_lammpslog", read_lammpslog, path, data=info)
    os.remove(path)
    if not ok:
        return
    if not ctx.check("log_sections", isinstance(res, list) and len(res) == nsec, "read_lammpslog/sections",
                     lambda: f"{len(res) if isinstance(res, list) else type(res).__name__} sections returned for {nsec} complete sections", info):
        return
    for k, ((cols, vals), df) in enumerate(zip(truth, res)):
        good = list(df.columns) == cols and len(df) == len(vals)
        ctx.check("log_sections", good, "read_lammpslog/layout", lambda: f"section {k}: columns {list(df.columns)} rows {len(df)}; expected {cols} rows {len(vals)}", info)
        if good:
            try:
                got = df.values.astype(float)
            except (TypeError, ValueError):
                ctx.check("log_values", False, "read_lammpslog/values", f"section {k}: non-numeric content", info)
                continue
            ctx.check("log_values", np.array_equal(got, vals), "read_lammpslog/values", lambda: f"section {k}: values differ from the log text", info)


def run(ctx):
    from ..harness import fresh_dir, drop_dir
    wd = fresh_dir("c19")
    n = ctx.n(1800, 2500)
    for i in range(n):
        roundtrip_case(ctx, ctx.rng(), wd, i)
        centertype_case(ctx, ctx.rng(), wd, i)
        gsd_case(ctx, ctx.rng(), i)
        if i % 2 == 0:
            data_header_case(ctx, ctx.rng())
            log_case(ctx, ctx.rng(), wd)
        if ctx.out_of_time():
            break
    drop_dir(wd)
