"""C10 — 2D bond-orientational order equals the l-fold definition."""
from __future__ import annotations

import os
from fractions import Fraction

import numpy as np

from ..gen import config as gc
from ..ref import geom
from ..ref import gr as rgr
from .C05 import parse_file
from .C06 import write_nl
from .C14 import ref_corr

SPEC = {
    "quick_procs": 2, "thorough_procs": 16, "timeout_quick": 400, "timeout_thorough": 2400,
    "anchors": ["PyMatterSim.static.boo:boo_2d.lthorder", "PyMatterSim.static.boo:boo_2d.time_average",
                "PyMatterSim.static.boo:boo_2d.spatial_corr", "PyMatterSim.static.boo:boo_2d.time_corr"],
    "must_reach": ["PyMatterSim.static.boo:boo_2d.lthorder", "PyMatterSim.static.boo:boo_2d.time_average",
                   "PyMatterSim.static.boo:boo_2d.spatial_corr", "PyMatterSim.static.boo:boo_2d.time_corr"],
    "floors": {"psi": 2000, "modulus_bound": 2000, "lattice_modulus_one": 60, "rotation_covariance": 300, "time_average": 100,
               "time_average_index": 30, "spatial_corr": 30, "time_corr": 100, "signed_weight_cases": 15,
               "particle_without_neighbours_in_one_frame": 5, "cells_with_the_tilt_above_the_diagonal": 5, "time_average_with_an_undefined_frame": 2},
    "rule": ("2D configurations x neighbour definitions {repository N-nearest, cut-off, freud Voronoi with edge-length weights, own "
             "ragged files with own signed weights} x l 1..12 x {orthogonal, triclinic} x masks x 1..6 frames x averaging windows; "
             "perfect hexagonal / square / honeycomb lattices; rotated open clusters; non-trivial = every particle has >= 1 neighbour; "
             "distinct = digest of (positions, lists, weights, l)"),
    "assumptions": ["bonds shorter than half the smallest perpendicular cell width (R2)", "weight rows with sum|w| > 0",
                    "time-average windows as in C16 (either central frame accepted for even windows)"],
}


def ref_psi(pos, H, ppp, lists, weights, l):
    N = len(pos)
    out = np.zeros(N, dtype=complex)
    mb = 0.0
    for i in range(N):
        js = lists[i]
        if len(js) == 0:
            out[i] = np.nan            # undefined: the caller masks this entry
            continue
        v, dist, _ = geom.min_image_vectors(pos[js] - pos[i], H, ppp)
        mb = max(mb, float(dist.max()))
        th = np.arctan2(v[:, 1], v[:, 0])
        if weights is None:
            out[i] = np.exp(1j * l * th).mean()
        else:
            w = np.asarray(weights[i], float)
            out[i] = (w * np.exp(1j * l * th)).sum() / np.abs(w).sum()
    return out, mb


def lattice2d(kind, rng):
    a = float(rng.uniform(0.8, 1.6))
    m = int(rng.integers(3, 6))
    if kind == "hex":
        basis, cellv, nn, l = np.array([[0, 0], [.5, .5]]), np.array([a, np.sqrt(3) * a]), 6, 6
    elif kind == "square":
        basis, cellv, nn, l = np.array([[0, 0]]), np.array([a, a]), 4, 4
    else:
        basis, cellv, nn, l = np.array([[0, 0], [1 / 3., 0], [.5, .5], [5 / 6., .5]]), np.array([3 * a, np.sqrt(3) * a]), 3, 3
    cells = np.array([[i, j] for i in range(m) for j in range(m)])
    frac = (basis[None] + cells[:, None]).reshape(-1, 2) / m
    H = np.diag(cellv * m)
    return ((frac + rng.random(2)) % 1.0) @ H, H, nn, l


def case_lattice(ctx, rng, wd, kind):
    from PyMatterSim.neighbors.calculate_neighbors import Nnearests
    from PyMatterSim.static.boo import boo_2d
    pos, H, nn, l = lattice2d(kind, rng)
    N = len(pos)
    pos = pos[rng.permutation(N)]
    cell = {"H": H, "L": np.diag(H), "origin": np.zeros(2), "tilt": (0, 0, 0), "kind": "ortho", "d": 2}
    snaps = gc.snapshots_from([gc.snapshot_from(cell, None, np.ones(N, dtype=int), 0, positions=pos)])
    fn = os.path.join(wd, "nl_l.dat")
    Nnearests(snaps, nn, np.ones(2, dtype=int), fn)
    info = lambda: {"lattice": kind, "N": N, "l": l}  # noqa: E731
    ok, b = ctx.call("boo_2d", boo_2d, snaps, l, fn, "", np.ones(2, dtype=int), 10, "", data=info)
    ctx.case(f"lattice/{kind}", pos, kind, nontrivial=True, sample={"lattice": kind, "N": N, "l": l, "neighbours": nn})
    if ok:
        ctx.close("lattice_modulus_one", np.abs(np.asarray(b.ParticlePhi))[0], np.ones(N), f"boo_2d/lattice/{kind}", rtol=0, atol=1e-10,
                  what=f"|psi_{l}| on a perfect {kind} lattice", data=info)
    os.remove(fn)


def case_random(ctx, rng, wd):
    from PyMatterSim.neighbors import calculate_neighbors as cn
    from PyMatterSim.neighbors.freud_neighbors import cal_neighbors
    from PyMatterSim.static.boo import boo_2d
    l = int(rng.integers(1, 13))
    nlkind = str(rng.choice(["nnearest", "cutoff", "voronoi", "own", "own"]))
    cellkind = "ortho" if nlkind == "voronoi" else str(rng.choice(["ortho", "ortho", "tri"]))
    T = int(rng.choice([1, 2, 3, 4, 6]))
    N = int(rng.integers(8, 50))
    bigsys = N >= 44 and T <= 2 and nlkind in ("nnearest", "own")
    if bigsys:
        N = int(rng.choice([130, 260, 520]))          # beyond the usual size (block-wise evaluation boundaries)
    cell = gc.make_cell(rng, 2, cellkind, lmin=5 * (N / 40.0) ** 0.5 if bigsys else 5, lmax=9 * (N / 40.0) ** 0.5 if bigsys else 9)
    upper = False
    if cellkind == "tri" and rng.random() < 0.3:
        # the same kind of cell with its tilt ABOVE the diagonal (cell vectors (lx, b) and (0, ly): the primitive cell of a triangular
        # lattice): a cell matrix like any other
        cell = dict(cell)
        cell["H"] = cell["H"].T.copy()
        upper = True
        ctx.count("cells_with_the_tilt_above_the_diagonal")
    f0 = gc.make_frac(rng, 2, N, str(rng.choice(["gas", "lattice", "hardcore"])))
    N = len(f0)
    step = int(rng.choice([1, 100]))
    uneven = T >= 3 and rng.random() < 0.25
    ts = np.concatenate([[0], np.cumsum(rng.integers(1, 4, size=T - 1))]) * step if uneven else step * np.arange(T)
    if uneven and len(set(np.diff(ts).tolist())) == 1:
        ts[-1] += step
    # sheared trajectories (equal edge lengths, an own tilt per frame): every frame has its own cell matrix
    shear = cellkind == "tri" and T > 1 and not upper and rng.random() < 0.5
    cells = [cell] + [gc.retilt(rng, cell) if shear else cell for _ in range(T - 1)]
    snaps = gc.snapshots_from([gc.snapshot_from(cells[t], (f0 + (rng.normal(0, 0.03, f0.shape) if t else 0)) % 1.0, np.ones(N, dtype=int), int(ts[t])) for t in range(T)])
    H = cell["H"]
    Hs = [c["H"] for c in cells]
    if shear:
        cellkind = "tri/sheared"
    ppp = np.ones(2, dtype=int) if nlkind == "voronoi" else gc.random_mask(rng, 2, allow_open=False)
    if nlkind != "voronoi":
        gc.unwrap_in_place(rng, snaps.snapshots, Hs, ppp)       # unwrapped coordinates: the same periodic configuration, the same bonds
    ra = min(geom.agreement_radius(Hf, ppp) for Hf in Hs)
    tables = [geom.pair_table(s.positions, Hf, ppp)[1] for s, Hf in zip(snaps.snapshots, Hs)]
    if min(float(np.min(t + np.eye(N) * 9)) for t in tables) < 1e-3:
        return
    fn = os.path.join(wd, "nl.dat")
    fw = ""
    signed = False
    isolated = None
    if nlkind == "nnearest":
        cn.Nnearests(snaps, int(rng.integers(2, 8)), ppp, fn)
    elif nlkind == "cutoff":
        flat = np.sort(tables[0][np.triu_indices(N, 1)])
        cn.cutoffneighbors(snaps, float(min(flat[int(0.1 * len(flat))], 0.9 * ra)), ppp, fn)
    elif nlkind == "voronoi":
        cal_neighbors(snaps, os.path.join(wd, "vor"))
        fn, fw = os.path.join(wd, "vor.neighbor.dat"), os.path.join(wd, "vor.edgelength.dat")
    else:
        lists_own, w_own = [], []
        signed = bool(rng.random() < 0.5)
        late_sign = bool(signed and T > 1 and rng.random() < 0.4)      # weights of mixed sign appear only after the first frame
        if late_sign:
            ctx.count("signed_weights_only_in_later_frames")
        for t in range(T):
            ll, ww = [], []
            for i in range(N):
                order = [int(j) for j in np.argsort(tables[t][i]) if j != i and tables[t][i, j] < 0.9 * ra]
                k = int(rng.integers(1, min(len(order), 9) + 1)) if order else 0
                pick = [int(v) for v in rng.permutation(order[:k + 2])[:k]]
                ll.append(pick)
                w = np.round(rng.uniform(0.1, 3.0, size=len(pick)), 6)
                if signed and not (late_sign and t == 0):
                    w *= rng.choice([-1.0, 1.0], size=len(pick))
                ww.append(w)
            lists_own.append(ll)
            w_own.append(ww)
        if T >= 3 and N >= 3 and not uneven and rng.random() < 0.3:
            # a particle that has NO neighbour in one frame (a dilute region, a cut-off list): its order parameter is undefined there (0/0) and
            # only there -- every other particle, every other frame and every time window that does not contain that frame stay defined
            isolated = (int(rng.integers(0, T)), int(rng.integers(0, N)))
            lists_own[isolated[0]][isolated[1]] = []
            w_own[isolated[0]][isolated[1]] = np.zeros(0)
            ctx.count("particle_without_neighbours_in_one_frame")
        alt = [[x[:max(1, len(x) // 2)] for x in ll] for ll in lists_own]
        if rng.random() < 0.3 and all(len(x) for ll in alt for x in ll) and alt != lists_own:
            # history: ANOTHER list of the same shape lived under this name and was analysed with the same arguments; it was then replaced
            # by the present one with its time stamp preserved (cp -p, restored from a backup): the content decides
            write_nl(fn, alt)
            st_ = os.stat(fn)
            ctx.call("boo_2d/prior_object_other_file", boo_2d, snaps, l, fn, "", ppp, max(10, max(len(x) for ll in lists_own for x in ll) + 1), "")
            write_nl(fn, lists_own)
            os.utime(fn, ns=(st_.st_atime_ns, st_.st_mtime_ns))
            ctx.count("file_replaced_with_preserved_time_stamp")
        else:
            write_nl(fn, lists_own)
        if rng.random() < 0.7:
            fw = os.path.join(wd, "w.dat")
            with open(fw, "w") as f:
                for t in range(T):
                    f.write("id   cn   edgelengthlist\n")
                    for i in range(N):
                        f.write(" ".join([str(i + 1), str(len(w_own[t][i]))] + ["%.6f" % v for v in w_own[t][i]]) + "\n")
        else:
            signed = False
    _h, fr = parse_file(fn)
    lists = [[[int(v) - 1 for v in row[2:2 + int(row[1])]] for row in sorted(rows, key=lambda r: int(r[0]))] for rows in fr]
    weights = None
    if fw:
        _h, fwr = parse_file(fw)
        weights = [[[float(v) for v in row[2:2 + int(row[1])]] for row in sorted(rows, key=lambda r: int(r[0]))] for rows in fwr]
    if any(len(x) == 0 for t_, ll in enumerate(lists) for i_, x in enumerate(ll) if (t_, i_) != isolated):
        return
    Nmax = max(10, max(len(x) for ll in lists for x in ll) + 1)
    info = lambda: {"l": l, "nl": nlkind, "N": N, "T": T, "cell": cellkind, "H": Hs, "ppp": ppp, "weights": bool(fw), "signed": signed, "timesteps": ts,  # noqa: E731
                    "positions": [s.positions for s in snaps.snapshots] if N <= 14 else "omitted", "lists": lists if N <= 14 else "omitted"}
    phi_file = os.path.join(wd, "phi.npy") if rng.random() < 0.2 else ""
    if bigsys:
        ctx.count("systems_beyond_usual_size")
    if rng.random() < 0.3:
        # history: the same trajectory and files analysed immediately before with ANOTHER symmetry (a scan over l), or another mask
        if rng.random() < 0.7:
            okp, bp = ctx.call("boo_2d/prior_object", boo_2d, snaps, l + 1 if l < 12 else l - 1, fn, fw, ppp, Nmax, "", data=info)
        else:
            okp, bp = ctx.call("boo_2d/prior_object", boo_2d, snaps, l, fn, fw, 1 - ppp if (1 - ppp).any() else ppp, Nmax, "", data=info)
        ctx.count("prior_object_one_argument_changed")
    ok, b = ctx.call("boo_2d", boo_2d, snaps, l, fn, fw, ppp, Nmax, phi_file, data=info)
    ctx.case(f"{nlkind}/{'signed' if signed else ('weighted' if fw else 'plain')}/{cellkind}", snaps.snapshots[0].positions, lists[0], l, nontrivial=True,
             sample={"l": l, "neighbours": nlkind, "weights": bool(fw), "signed": signed, "N": N, "T": T, "cell": cellkind, "ppp": ppp})
    if signed:
        ctx.count("signed_weight_cases")
    if not ok:
        return
    psi = np.zeros((T, N), dtype=complex)
    for t in range(T):
        psi[t], mb = ref_psi(snaps.snapshots[t].positions, Hs[t], ppp, lists[t], weights[t] if weights else None, l)
        if mb >= ra:
            ctx.skip("psi")
            return
    got = np.asarray(b.ParticlePhi)
    if isolated is not None:
        if got.shape != psi.shape:
            ctx.violation("boo_2d/psi/shape", f"shape {got.shape} != {psi.shape}", info())
            return
        got = got.copy()
        got[isolated] = 0.0             # the undefined entry is not compared (whatever it holds); everything else is
        psi[isolated] = 0.0
    if not ctx.close("psi", got, psi, "boo_2d/psi" + ("/weighted" if fw else ""), rtol=0, atol=1e-10, what="psi_l", data=info):
        return
    ctx.check("modulus_bound", bool(np.all(np.abs(got) <= 1 + 1e-12)), "boo_2d/modulus", lambda: f"|psi| = {np.abs(got).max()} > 1", info)
    ctx.count("modulus_bound", got.size - 1)
    if phi_file:
        ctx.check("psi", np.array_equal(np.load(phi_file), np.asarray(b.ParticlePhi), equal_nan=True), "boo_2d/file", "saved order parameter differs", info)
    # time average
    if T >= 3 and not uneven:
        dt_s = str(rng.choice(["0.002", "0.005", "1.0"]))
        interval = Fraction(dt_s) * step
        w = int(rng.integers(1, T))
        period = interval * w + (interval * Fraction(int(rng.integers(1, 90)), 100) if rng.random() < 0.6 else 0)
        period_s = format(float(period), ".10g")
        period = Fraction(period_s)
        wexp = int(period / interval)
        q = period / interval
        if 1 <= wexp <= T - 1 and (q == wexp or abs(q - round(q)) > Fraction(1, 10 ** 6)):
            cplx = bool(rng.random() < 0.5)
            outf = os.path.join(wd, "ta.npy") if rng.random() < 0.3 else ""
            ok, res = ctx.call("boo_2d.time_average", b.time_average, float(period_s), float(dt_s), cplx, outf, data=info)
            if ok:
                vals, mids = np.asarray(res[0]), np.asarray(res[1])
                rows = vals.shape[0]
                if ctx.check("time_average", rows in (T - wexp, T - wexp + 1), "boo_2d.time_average/window", lambda: f"{rows} windows for T={T}, expected window {wexp}", info):
                    if cplx:
                        exp = np.array([psi[n:n + wexp].mean(axis=0) for n in range(rows)])
                    else:
                        exp = np.array([np.abs(psi[n:n + wexp]).mean(axis=0) * np.exp(1j * np.angle(got[n:n + wexp]).mean(axis=0)) for n in range(rows)])
                    vals_returned = vals
                    if isolated is not None and vals.shape == exp.shape:
                        vals, exp = vals.copy(), exp.copy()
                        for n_ in range(rows):
                            if n_ <= isolated[0] < n_ + wexp:
                                vals[n_, isolated[1]] = exp[n_, isolated[1]] = 0.0
                        ctx.count("time_average_with_an_undefined_frame")
                    ctx.close("time_average", vals, exp, "boo_2d.time_average/" + ("complex" if cplx else "modulus_phase"), rtol=0, atol=1e-9, what="time-averaged order parameter", data=info)
                    n = np.arange(rows)
                    good = np.array_equal(mids, n + (wexp - 1) // 2) if wexp % 2 else bool(np.all((mids == n + wexp // 2 - 1) | (mids == n + wexp // 2)))
                    ctx.check("time_average_index", good, "boo_2d.time_average/index", lambda: f"window {wexp}: indices {mids.tolist()}", info)
                    if outf:
                        ctx.check("time_average", np.array_equal(np.load(outf), vals_returned, equal_nan=True), "boo_2d.time_average/file", "saved average differs", info)
    if isolated is not None:
        for f in os.listdir(wd):
            os.remove(os.path.join(wd, f))
        return          # the correlations sum over all particles: undefined as a whole
    # spatial correlation
    if rng.random() < 0.5:
        Lmin = float(np.diag(H).min())
        w = Lmin / 2 / float(rng.uniform(6, 14))
        if abs(Lmin / 2 / w - round(Lmin / 2 / w)) < 1e-6:
            w *= 1.001
        gfile = os.path.join(wd, "g_l.csv") if rng.random() < 0.3 else ""
        ok, sc = ctx.call("boo_2d.spatial_corr", b.spatial_corr, w, gfile, data=info)
        if ok and rng.random() < 0.4:
            # history: the caller normalises the table it was given in place and asks again (same bin width): the new answer must not
            # be the caller-modified table
            keep = sc.copy()
            try:
                sc["gA"] = sc["gA"] / np.where(sc["gr"] == 0, 1.0, sc["gr"])
                sc["gr"] = 0.0
            except Exception:  # noqa: BLE001
                pass
            ok_b, sc_b = ctx.call("boo_2d.spatial_corr/asked_again", b.spatial_corr, w, "", data=info)
            if ok_b:
                ctx.check("spatial_corr", list(sc_b.columns) == list(keep.columns) and np.allclose(sc_b.values, keep.values, rtol=1e-12, atol=0, equal_nan=True),
                          "boo_2d.spatial_corr/returned_table_shared", "after the caller modified the returned table in place, a second call returns the modified table", info)
            sc = keep
        if ok and gfile:
            import pandas as pd
            back = pd.read_csv(gfile)
            ctx.check("spatial_corr", back.shape == sc.shape and bool(np.all(np.abs(back.values - sc.values) <= 0.5000001e-8 + 1e-12 * np.abs(sc.values))),
                      "boo_2d.spatial_corr/csv", "CSV differs from the returned frame beyond %.8f", info)
            os.remove(gfile)
        if ok:
            nb = int(Lmin / 2.0 / w)
            V = abs(np.linalg.det(H))
            vs = rgr.shell(2, w, nb)
            lo_a, hi_a, glo, ghi = np.zeros(nb), np.zeros(nb), np.zeros(nb), np.zeros(nb)
            off = ~np.eye(N, dtype=bool)
            for t in range(T):
                _v, dist, _ = geom.pair_table(snaps.snapshots[t].positions, Hs[t], ppp)
                Wm = np.real(np.conj(psi[t])[:, None] * psi[t][None, :])
                lo, hi, _ = rgr.histogram_interval(dist[off], w, nb, weights=Wm[off])
                lo_a += lo
                hi_a += hi
                lo, hi, _ = rgr.histogram_interval(dist[off], w, nb)
                glo += lo
                ghi += hi
            norm = V / (N * N) / vs / T
            compare = np.ones(nb, dtype=bool) if geom.is_orthogonal(H) else (np.arange(nb) + 1) * w <= ra
            good = len(sc) == nb
            if good:
                for col, a, bb in (("gA", lo_a, hi_a), ("gr", glo, ghi)):
                    obs = sc[col].values
                    scl = max(1e-12, np.abs(bb * norm).max(), np.abs(a * norm).max())
                    good &= bool(np.all(~compare | ((obs >= a * norm - 1e-9 * scl) & (obs <= bb * norm + 1e-9 * scl))))
            ctx.check("spatial_corr", good, "boo_2d.spatial_corr", "spatial correlation differs from the frame-averaged Re(psi_i conj psi_j)-weighted pair histogram", info)
    if T >= 2:
        dt = 0.002
        ok, tc = ctx.call("boo_2d.time_corr", b.time_corr, dt, "", data=info)
        if ok:
            tref, cref, _ = ref_corr(psi, np.asarray(ts), dt)
            if np.isfinite(cref).all():
                ctx.close("time_corr", tc["time_corr"].values, cref, "boo_2d.time_corr", rtol=1e-9, atol=1e-11, what="time correlation of psi", data=info)
                ctx.close("time_corr", tc["t"].values, tref, "boo_2d.time_corr/t", rtol=1e-12, atol=1e-15, what="time axis", data=info, n=1)
    for f in os.listdir(wd):
        os.remove(os.path.join(wd, f))


def case_rotation(ctx, rng, wd):
    """open-boundary cluster rotated by alpha: every psi_l is multiplied by exp(i l alpha)."""
    from PyMatterSim.static.boo import boo_2d
    l = int(rng.integers(1, 13))
    N = int(rng.integers(5, 40))
    pos = rng.normal(size=(N, 2)) * 1.5 + 20.0
    cell = {"H": np.diag([40.0, 40.0]), "L": np.array([40.0, 40.0]), "origin": np.zeros(2), "tilt": (0, 0, 0), "kind": "ortho", "d": 2}
    lists = []
    d = np.linalg.norm(pos[:, None] - pos[None], axis=2)
    for i in range(N):
        order = [int(j) for j in np.argsort(d[i]) if j != i]
        lists.append(order[:int(rng.integers(1, min(7, N - 1) + 1))])
    fn = os.path.join(wd, "nl_r.dat")
    write_nl(fn, [lists])
    alpha = float(rng.uniform(-np.pi, np.pi))
    R = np.array([[np.cos(alpha), -np.sin(alpha)], [np.sin(alpha), np.cos(alpha)]])
    pos2 = (pos - 20.0) @ R.T + 20.0
    ppp = np.zeros(2, dtype=int)
    info = lambda: {"l": l, "N": N, "alpha": alpha, "positions": pos if N <= 12 else "omitted", "lists": lists if N <= 12 else "omitted"}  # noqa: E731
    s1 = gc.snapshots_from([gc.snapshot_from(cell, None, np.ones(N, dtype=int), 0, positions=pos)])
    s2 = gc.snapshots_from([gc.snapshot_from(cell, None, np.ones(N, dtype=int), 0, positions=pos2)])
    ok1, b1 = ctx.call("boo_2d", boo_2d, s1, l, fn, "", ppp, 10, "", data=info)
    ok2, b2 = ctx.call("boo_2d", boo_2d, s2, l, fn, "", ppp, 10, "", data=info)
    ctx.case("rotation", pos, lists, l, alpha, nontrivial=True, sample={"l": l, "N": N, "alpha": alpha})
    if ok1 and ok2:
        ctx.close("rotation_covariance", np.asarray(b2.ParticlePhi), np.exp(1j * l * alpha) * np.asarray(b1.ParticlePhi), "boo_2d/rotation", rtol=0, atol=1e-10,
                  what="psi(rotated) vs exp(i l alpha) psi", data=info)
    os.remove(fn)


def run(ctx):
    from ..harness import fresh_dir, drop_dir
    wd = fresh_dir("c10")
    for _ in range(ctx.n(12, 10)):
        for kind in ("hex", "square", "honeycomb"):
            case_lattice(ctx, ctx.rng(), wd, kind)
    n = ctx.n(240, 500)
    for _ in range(n):
        case_random(ctx, ctx.rng(), wd)
        case_rotation(ctx, ctx.rng(), wd)
        if ctx.out_of_time():
            break
    drop_dir(wd)
