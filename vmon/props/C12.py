"""C12 — pair-potential derivatives are the derivatives of the documented potentials."""
from __future__ import annotations

import numpy as np

SPEC = {
    "quick_procs": 1, "thorough_procs": 8, "timeout_quick": 400, "timeout_thorough": 2400,
    "anchors": ["PyMatterSim.static.hessians:PairInteractions.lennard_jones",
                "PyMatterSim.static.hessians:PairInteractions.inverse_power_law",
                "PyMatterSim.static.hessians:PairInteractions.harmonic_hertz",
                "PyMatterSim.static.hessians:PairInteractions.caller"],
    "must_reach": ["PyMatterSim.static.hessians:PairInteractions.lennard_jones",
                   "PyMatterSim.static.hessians:PairInteractions.inverse_power_law",
                   "PyMatterSim.static.hessians:PairInteractions.harmonic_hertz",
                   "PyMatterSim.static.hessians:PairInteractions.caller"],
    "floors": {"symbolic_derivatives": 15000, "numeric_guard": 100, "selector": 1000, "structure": 18, "scaling": 1000, "attribute_reassigned": 500},
    "insitu": (),
    "rule": ("r/sigma in [0.5, r_c/sigma], epsilon/sigma/A log-uniform over 6 decades, n in [1,36] real, alpha in (1,4] real "
             "(r<sigma), both shift settings, all three models through the named method and through the selector; "
             "non-trivial = every point (three derivatives compared to 1e-12 relative); distinct = digest of the parameter tuple"),
    "assumptions": ["documented potentials from docs/hessian.md: LJ 4eps[(s/r)^12-(s/r)^6], IPL A eps (s/r)^n, "
                    "harmonic/Hertz eps/alpha (1-r/s)^alpha with its natural cut-off r_c = sigma (so s'(r_c)=0 as documented)",
                    "oracle = sympy.diff of the documented s(r), evaluated by mpmath at 40 digits; mpmath numerical "
                    "differentiation of s(r) guards the symbolic step"],
}


def build_oracles():
    import sympy as sp
    r, e, s, n, A, al = sp.symbols("r epsilon sigma n A alpha", positive=True)
    pots = {
        "lennard_jones": 4 * e * ((s / r) ** 12 - (s / r) ** 6),
        "inverse_power_law": A * e * (s / r) ** n,
        "harmonic_hertz": e / al * (1 - r / s) ** al,
    }
    out = {}
    for k, U in pots.items():
        d1 = sp.diff(U, r)
        d2 = sp.diff(U, r, 2)
        args = (r, e, s, n, A, al)
        out[k] = (sp.lambdify(args, U, "mpmath"), sp.lambdify(args, d1, "mpmath"), sp.lambdify(args, d2, "mpmath"))
    return out


def run(ctx):
    import mpmath
    from PyMatterSim.static.hessians import InteractionParams, ModelName, PairInteractions
    mpmath.mp.dps = 40
    orc = build_oracles()
    models = ["lennard_jones", "inverse_power_law", "harmonic_hertz"]
    npts = ctx.n(20000, 30000)
    fam = {}
    for i in range(npts):
        rng = ctx.rng()
        model = models[i % 3]
        eps_ = float(10 ** rng.uniform(-3, 3))
        sig = float(10 ** rng.uniform(-3, 3))
        A = float(10 ** rng.uniform(-3, 3)) if rng.random() < 0.8 else 1.0
        n = float(rng.uniform(1, 36)) if rng.random() < 0.7 else float(rng.integers(1, 37))
        al = float(rng.choice([2.0, 2.5, 3.0])) if rng.random() < 0.4 else float(rng.uniform(1.05, 4.0))
        shift = bool(rng.random() < 0.5)
        # history: families of consecutive evaluations that share (epsilon, sigma, r_c) and differ in model / exponent / prefactor /
        # distance -- what a Hessian assembly does for one pair type; anything remembered between calls under an incomplete key shows here
        in_family = (i % 12) < 6
        if in_family and (i % 12) > 0 and fam:
            eps_, sig, rcr = fam["eps"], fam["sig"], fam["rcr"]
            shift = True if rng.random() < 0.8 else shift
            model = models[int(rng.integers(0, 3))] if rng.random() < 0.5 else fam["model"]
        else:
            rcr = float(rng.uniform(1.05, 4.0))
            fam = {"eps": eps_, "sig": sig, "rcr": rcr, "model": model if model != "harmonic_hertz" else "inverse_power_law"}
        beyond = False
        if model == "harmonic_hertz":
            rc = sig
            r = sig * float(rng.uniform(0.05, 0.98))
            if rng.random() < 0.12:
                # exactly AT contact (r == sigma in floating point: particles placed on a lattice of spacing sigma): for alpha >= 2 the
                # derivatives are finite there (s'' = eps/sigma^2 for the harmonic case, 0 above)
                al = float(rng.choice([2.0, 2.0, 2.5, 3.0, 4.0]))
                r = sig
                ctx.count("exactly_at_contact")
            elif rng.random() < 0.3:
                # beyond contact the documented expression is still a polynomial for an integer exponent
                al = float(rng.choice([2.0, 3.0, 4.0]))
                r = sig * float(rng.uniform(1.02, 1.6))
                beyond = True
        else:
            rc = sig * rcr
            r = sig * float(rng.uniform(0.5, rc / sig))
        if i % 11 == 3:
            # integer-valued arguments handed over as integers (Python int or numpy int64): epsilon = 1, sigma = 1, r_c = 3, r = 2, n = 12
            conv = int if (i // 11) % 2 else np.int64
            eps_, A, n = conv(rng.integers(1, 4)), conv(rng.integers(1, 3)), conv(rng.choice([6, 9, 12]))
            if model == "harmonic_hertz":
                sig, r, al = conv(rng.integers(2, 5)), conv(1), conv(rng.choice([2, 3]))
                rc, beyond = sig, False
            else:
                sig, rc, r = conv(1), conv(rng.integers(3, 6)), conv(2)
            fam = None
            ctx.count("integer_arguments")
        pars = {"model": model, "r": r, "epsilon": eps_, "sigma": sig, "r_c": rc, "shift": shift, "n": n, "A": A, "alpha": al}
        ip = InteractionParams(model_name=getattr(ModelName, model), ipl_n=n, ipl_A=A, harmonic_hertz_alpha=al)
        pi = PairInteractions(r=r, epsilon=eps_, sigma=sig, r_c=rc, shift=shift)
        via_caller = bool(i % 2)
        if via_caller:
            ok, got = ctx.call(f"{model}/caller", pi.caller, ip, data=pars)
        else:
            f = {"lennard_jones": lambda: pi.lennard_jones(), "inverse_power_law": lambda: pi.inverse_power_law(n=n, A=A),
                 "harmonic_hertz": lambda: pi.harmonic_hertz(alpha=al)}[model]
            ok, got = ctx.call(f"{model}/method", f, data=pars)
        ctx.case(f"{model}/{'shift' if shift else 'noshift'}/{'caller' if via_caller else 'method'}" + ("/beyond_contact" if beyond else "") +
                 ("/family" if in_family and (i % 12) > 0 else ""), model, r, eps_, sig, rc, shift, n, A, al,
                 nontrivial=True, sample=pars)
        if not ok:
            continue
        if not (isinstance(got, (list, tuple)) and len(got) == 3):
            ctx.violation(f"{model}/shape", f"returned {got!r}", pars)
            continue
        U, d1, d2 = orc[model]
        a = tuple(mpmath.mpf(float(v_)) for v_ in (r, eps_, sig, n, A, al))
        if model == "harmonic_hertz" and float(r) == float(sig):
            # exactly at contact the sympy-generated expressions are 0/0; the documented s(r) = eps/alpha (1 - r/sigma)^alpha has the
            # one-sided limits s' -> 0 (alpha > 1) and s'' -> eps/sigma^2 (alpha = 2), 0 (alpha > 2); guarded by the oracle itself
            # evaluated 1e-40 sigma below contact
            e1 = mpmath.mpf(0)
            e2 = a[1] / a[2] ** 2 if float(al) == 2.0 else mpmath.mpf(0)
            mpmath.mp.dps = 60
            near = (a[2] * (1 - mpmath.mpf(10) ** -40),) + a[1:]
            ctx.check("numeric_guard", abs(d1(*near) - e1) <= mpmath.mpf(10) ** -15 * a[1] / a[2] and abs(d2(*near) - e2) <= mpmath.mpf(10) ** -15 * a[1] / a[2] ** 2,
                      "oracle/contact_limit", "contact limits disagree with the symbolic derivative just below contact", pars)
            mpmath.mp.dps = 40
        else:
            e1 = d1(*a)
            e2 = d2(*a)
        if model == "harmonic_hertz":
            erc = mpmath.mpf(0)
        elif shift:
            erc = d1(mpmath.mpf(float(rc)), *a[1:])
        else:
            erc = mpmath.mpf(0)
        exp = np.array([float(e1), float(erc), float(e2)])
        try:
            obs = np.array([float(v) for v in got])
        except (TypeError, ValueError):
            ctx.violation(f"{model}/not_real", f"returned non-real values {got!r}", pars, monitor="symbolic_derivatives")
            continue
        # relative to the size of the individual terms (LJ derivatives change sign: cancellation near the zero)
        if model == "lennard_jones":
            x6, xc6 = (sig / r) ** 6, (sig / rc) ** 6
            mag = np.array([24 * eps_ / r * (2 * x6 * x6 + x6), 24 * eps_ / rc * (2 * xc6 * xc6 + xc6), 24 * eps_ / r ** 2 * (26 * x6 * x6 + 7 * x6)])
        else:
            mag = np.abs(exp)
        rel = np.abs(obs - exp) <= 1e-12 * np.maximum(mag, 1e-300) + 0.0
        rel |= (exp == 0) & (obs == 0)
        m = ctx.mon("symbolic_derivatives")
        m["comparisons"] += 3
        with np.errstate(all="ignore"):
            re_ = np.abs(obs - exp) / np.maximum(mag, 1e-300)
            m["max_err"] = max(m["max_err"], float(np.nanmax(np.where(exp == 0, 0, re_))))
        if not rel.all():
            which = ["s1", "s1rc", "s2"][int(np.argmin(rel))]
            ctx.violation(f"{model}/{which}", f"{which}: got {obs[np.argmin(rel)]!r}, d/dr of the documented potential gives "
                          f"{exp[np.argmin(rel)]!r}", pars, monitor="symbolic_derivatives")
        if i % 40 == 0 and not (model == "harmonic_hertz" and float(r) == float(sig)):      # guard of the symbolic step: numerical differentiation of s(r) itself
            g1 = mpmath.diff(lambda x: U(x, *a[1:]), a[0])
            g2 = mpmath.diff(lambda x: U(x, *a[1:]), a[0], 2)
            ctx.check("numeric_guard", abs(g1 - e1) <= abs(e1) * mpmath.mpf("1e-20") and abs(g2 - e2) <= abs(e2) * mpmath.mpf("1e-15"),
                      "oracle/symbolic_vs_numeric", "sympy derivative disagrees with mpmath numerical derivative", pars)
        # history on one object: a public attribute is re-assigned (a scan over r, r_c, sigma or epsilon for one pair object) and the same
        # request is made again.  Whether the object reads its attributes when constructed or when called is not pinned by C12: the triple of
        # EITHER reading is accepted, a mixture of old and new values (a ratio sigma/r_c kept from the constructor, say) is not.
        if i % 7 == 2 and not (model == "harmonic_hertz" and float(r) == float(sig)) and not beyond and i % 11 != 3:
            which = str(rng.choice(["r", "epsilon"] if model == "harmonic_hertz" else ["r", "r_c", "sigma", "epsilon"]))
            new = dict(r=float(r), epsilon=float(eps_), sigma=float(sig), r_c=float(rc))
            if which == "r":
                new["r"] = float(r) * float(rng.uniform(0.6, 0.95))
            elif which == "epsilon":
                new["epsilon"] = float(eps_) * float(rng.uniform(1.3, 4.0))
            elif which == "r_c":
                new["r_c"] = float(rc) * float(rng.uniform(1.1, 1.7))
            else:
                new["sigma"] = float(sig) * float(rng.uniform(0.75, 0.97))
            if hasattr(pi, which):
                old_value = getattr(pi, which)
                setattr(pi, which, new[which])
                call2 = (lambda: pi.caller(ip)) if via_caller else f
                ok2, got2 = ctx.call(f"{model}/attribute_reassigned", call2, data={**pars, "reassigned": which, "to": new[which]})
                if ok2:
                    try:
                        obs2 = np.array([float(v) for v in got2])
                    except (TypeError, ValueError):
                        obs2 = np.full(3, np.nan)
                    a2 = tuple(mpmath.mpf(float(v_)) for v_ in (new["r"], new["epsilon"], new["sigma"], n, A, al))
                    e2rc = d1(mpmath.mpf(new["r_c"]), *a2[1:]) if (shift and model != "harmonic_hertz") else mpmath.mpf(0)
                    exp_new = np.array([float(d1(*a2)), float(e2rc), float(d2(*a2))])

                    def agrees(o, e):
                        return bool(np.all((np.abs(o - e) <= 1e-9 * np.maximum(np.abs(e), np.abs(exp).max() * 1e-6)) | ((e == 0) & (o == 0))))
                    ctx.check("attribute_reassigned", agrees(obs2, exp_new) or agrees(obs2, exp), f"{model}/attribute_reassigned",
                              lambda: f"after re-assigning .{which} the triple {obs2.tolist()} is neither the one of the new values {exp_new.tolist()} "
                                      f"nor the one of the values given at construction {exp.tolist()}", {**pars, "reassigned": which, "to": new[which]})
                pi = PairInteractions(r=r, epsilon=eps_, sigma=sig, r_c=rc, shift=shift)    # the later relations start from a fresh object again
                del old_value
        # selector: the triple of the requested model, not of another one
        if via_caller:
            others = []
            for om in models:
                if om != model:
                    try:
                        o = {"lennard_jones": lambda: pi.lennard_jones(), "inverse_power_law": lambda: pi.inverse_power_law(n=n, A=A),
                             "harmonic_hertz": lambda: pi.harmonic_hertz(alpha=al)}[om]()
                        others.append(np.array([float(v) for v in o]))
                    except Exception:  # noqa: BLE001
                        pass
            own = {"lennard_jones": lambda: pi.lennard_jones(), "inverse_power_law": lambda: pi.inverse_power_law(n=n, A=A),
                   "harmonic_hertz": lambda: pi.harmonic_hertz(alpha=al)}[model]()
            same = np.array_equal(np.array([float(v) for v in own]), obs)
            ctx.check("selector", same, f"caller/{model}", "selector output differs from the named method", pars)
        # scaling relations on the repository's outputs alone
        if i % 5 == 0:
            lam = float(rng.uniform(0.3, 3.0))
            pi2 = PairInteractions(r=lam * r, epsilon=eps_, sigma=lam * sig, r_c=lam * rc, shift=shift)
            pi3 = PairInteractions(r=r, epsilon=2.5 * eps_, sigma=sig, r_c=rc, shift=shift)
            try:
                o2 = np.array([float(v) for v in pi2.caller(ip)])
                o3 = np.array([float(v) for v in pi3.caller(ip)])
                o1 = np.array([float(v) for v in pi.caller(ip)])
                okk = np.allclose(o2 * np.array([lam, lam, lam ** 2]), o1, rtol=1e-9, atol=0) and np.allclose(o3, 2.5 * o1, rtol=1e-12, atol=0)
                ctx.check("scaling", bool(okk), f"{model}/scaling", "derivatives do not scale as 1/lambda, 1/lambda^2 under a "
                          "common dilation of r, sigma, r_c or are not linear in epsilon", pars)
            except Exception as e:  # noqa: BLE001
                ctx.violation(f"{model}/scaling/raises", repr(e), pars)
    # ---- structure: LJ s'(r) r / eps is a polynomial of degree 12 in x = sigma/r (measured on the outputs)
    from numpy.polynomial import chebyshev as cheb
    for shift in (True, False):
        for sig in (0.7, 1.0, 3.3):
            xs = 0.5 * (0.35 + 2.0) + 0.5 * (2.0 - 0.35) * np.cos(np.pi * (np.arange(64) + 0.5) / 64)
            vals1, vals2 = [], []
            for x in xs:
                r = sig / x
                o = PairInteractions(r=r, epsilon=1.7, sigma=sig, r_c=2.5 * sig, shift=shift).lennard_jones()
                vals1.append(o[0] * r / 1.7)
                vals2.append(o[2] * r * r / 1.7)
            t = (2 * xs - (0.35 + 2.0)) / (2.0 - 0.35)
            for name, v, expc in (("s1", np.array(vals1), {12: -48.0, 6: 24.0}), ("s2", np.array(vals2), {12: 624.0, 6: -168.0})):
                c = cheb.chebfit(t, v, 40)
                high = np.abs(c[13:]).max() / np.abs(c).max()
                p = np.polynomial.Polynomial(cheb.cheb2poly(c[:13]))
                # back to monomials in x
                px = p(np.polynomial.Polynomial([-(0.35 + 2.0) / (2.0 - 0.35), 2 / (2.0 - 0.35)]))
                co = px.coef
                good = high < 1e-9
                for k in range(13):
                    good &= abs(co[k] - expc.get(k, 0.0)) < 1e-4 * 700
                ctx.check("structure", bool(good), f"lennard_jones/structure/{name}",
                          lambda: f"{name}*r^k/eps is not the degree-12 polynomial {expc} in sigma/r: monomial coefficients "
                                  f"{np.round(co, 4).tolist()}, content above degree 12: {high:.2g}", {"sigma": sig, "shift": shift})
        # IPL: log|s' r| affine in log x with slope n
        for nn in (4.0, 9.5, 18.0):
            xs = np.linspace(0.4, 1.8, 25)
            v = np.array([PairInteractions(r=1.3 / x, epsilon=0.9, sigma=1.3, r_c=5.0, shift=shift).inverse_power_law(n=nn, A=2.0)[0] * (1.3 / x)
                          for x in xs])
            slope = np.polyfit(np.log(xs), np.log(np.abs(v)), 1)
            resid = np.log(np.abs(v)) - np.polyval(slope, np.log(xs))
            ctx.check("structure", abs(slope[0] - nn) < 1e-9 and np.abs(resid).max() < 1e-10 and abs(np.exp(slope[1]) - 2.0 * 0.9 * nn) < 1e-8,
                      "inverse_power_law/structure", lambda: f"log|s' r| not affine in log(sigma/r) with slope n={nn}: slope {slope[0]}", {"n": nn})
