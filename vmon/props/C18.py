"""C18 — analyses are pure: inputs never modified, repeated calls agree, files hold what was returned.

State monitor, no model needed: random *programs* of public entry points run on one shared pool of snapshot
objects and argument arrays.  Before and after every call a bit-exact copy of every array reachable from the pool
and from the call's own arguments is compared; a third of the steps repeat an earlier step (same arguments) and
must return identical results whatever ran in between; every requested output file is parsed and compared with
what the call returned, to the precision the file was written with.
"""
from __future__ import annotations

import os
import re
import traceback

import numpy as np

from ..gen import config as gc

SPEC = {
    "quick_procs": 4, "thorough_procs": 16, "timeout_quick": 900, "timeout_thorough": 3600,
    "anchors": ["PyMatterSim.static.shape:gyration_tensor", "PyMatterSim.neighbors.freud_neighbors:VolumeMatrix",
                "PyMatterSim.neighbors.freud_neighbors:convert_configuration", "PyMatterSim.static.gr:gr.getresults",
                "PyMatterSim.static.sq:sq.getresults", "PyMatterSim.static.boo:boo_2d.lthorder", "PyMatterSim.static.boo:boo_3d.ql_Ql",
                "PyMatterSim.dynamic.dynamics:Dynamics.relaxation", "PyMatterSim.utils.coarse_graining:gaussian_blurring",
                "PyMatterSim.static.vector:vector_decomposition_sq"],
    "must_reach": ["PyMatterSim.static.shape:gyration_tensor", "PyMatterSim.neighbors.freud_neighbors:VolumeMatrix",
                   "PyMatterSim.static.gr:gr.getresults", "PyMatterSim.static.sq:sq.getresults", "PyMatterSim.static.boo:boo_2d.lthorder",
                   "PyMatterSim.static.boo:boo_3d.ql_Ql", "PyMatterSim.dynamic.dynamics:Dynamics.relaxation",
                   "PyMatterSim.utils.coarse_graining:gaussian_blurring", "PyMatterSim.static.vector:vector_decomposition_sq"],
    "floors_thorough": {"purity_repo_tests": 200},
    "floors": {"purity": 20000, "repeat": 300, "files": 400, "instance_reuse": 30, "instance_history": 30, "fresh_process_replay": 40,
               "updated_in_place": 100, "layout_invariance": 80, "held_results": 500},
    "insitu": (),
    "rule": ("random programs (12-20 steps, a third of them repeats of an earlier step) over ~60 public entry points of static / "
             "dynamic / neighbors / utils on one shared pool: 2-D and 3-D wrapped + unwrapped trajectories (3-4 frames, 16-30 "
             "particles, 2-3 species, box origins incl. centred), orientation snapshots, scalar / complex / boolean / vector / "
             "tensor per-particle fields, wave-vector lists, neighbour and weight files; evaluations = steps executed; "
             "non-trivial = step whose call returned; distinct = digest of (entry point, parameters, pool)"),
    "assumptions": ["BLAS pinned to one thread so that repeated calls are bit-reproducible", "results are compared after canonicalising "
                    "containers (DataFrame -> columns + values); NaN equals NaN",
                    "file precision is read off the file itself (decimals / significant digits of each token)"],
}


# ------------------------------------------------------------------ state walking / comparison
def leaves(obj, path="", out=None, seen=None, depth=0):
    """all ndarrays reachable from obj through dataclasses / dicts / lists / tuples / plain object attributes"""
    if out is None:
        out, seen = {}, set()
    if id(obj) in seen or depth > 6:
        return out
    if isinstance(obj, np.ndarray):
        out[path] = obj
        return out
    if obj is None or isinstance(obj, (str, bytes, int, float, complex, bool, np.generic)):
        return out
    seen.add(id(obj))
    if isinstance(obj, dict):
        for k, v in obj.items():
            leaves(v, f"{path}[{k!r}]", out, seen, depth + 1)
    elif isinstance(obj, (list, tuple)):
        for k, v in enumerate(obj):
            leaves(v, f"{path}[{k}]", out, seen, depth + 1)
    elif hasattr(obj, "__dataclass_fields__"):
        for k in obj.__dataclass_fields__:
            leaves(getattr(obj, k), f"{path}.{k}", out, seen, depth + 1)
    return out


def scalar_state(obj, path="", out=None, seen=None, depth=0):
    """repr of every non-array value held in dicts / lists reachable from obj (masses, diameters, ...)"""
    if out is None:
        out, seen = {}, set()
    if isinstance(obj, np.ndarray) or id(obj) in seen or depth > 6:
        return out
    if obj is None or isinstance(obj, (str, bytes, int, float, complex, bool, np.generic)):
        out[path] = repr(obj)
        return out
    seen.add(id(obj))
    if isinstance(obj, dict):
        out[path + "#keys"] = repr(list(obj.keys()))
        for k, v in obj.items():
            scalar_state(v, f"{path}[{k!r}]", out, seen, depth + 1)
    elif isinstance(obj, (list, tuple)):
        out[path + "#len"] = repr(len(obj))
        for k, v in enumerate(obj):
            scalar_state(v, f"{path}[{k}]", out, seen, depth + 1)
    elif hasattr(obj, "__dataclass_fields__"):
        for k in obj.__dataclass_fields__:
            scalar_state(getattr(obj, k), f"{path}.{k}", out, seen, depth + 1)
    return out


def freeze(objs):
    """bit-exact copy of every reachable array + its dtype/shape, and the repr of every reachable scalar"""
    lv = leaves(objs)
    fr = {p: (a.dtype.str, a.shape, a.tobytes()) for p, a in lv.items()}
    fr["#scalars"] = scalar_state(objs)
    fr["#objs"] = objs
    return lv, fr


def changed(lv, frozen):
    out = []
    now = scalar_state(frozen["#objs"])
    for p in sorted(set(now) | set(frozen["#scalars"])):
        if now.get(p) != frozen["#scalars"].get(p):
            out.append((p + f" ({frozen['#scalars'].get(p)} -> {now.get(p)})", float("nan")))
    for p, a in lv.items():
        dt, sh, by = frozen[p]
        if a.dtype.str != dt or a.shape != sh or a.tobytes() != by:
            try:
                old = np.frombuffer(by, dtype=np.dtype(dt)).reshape(sh)
                with np.errstate(all="ignore"):
                    diff = float(np.nanmax(np.abs(a.astype(complex) - old.astype(complex)))) if a.shape == sh else float("nan")
            except Exception:  # noqa: BLE001
                diff = float("nan")
            out.append((p, diff))
    return out


def canon(x, depth=0):
    import pandas as pd
    if depth > 6:
        return repr(x)
    if isinstance(x, pd.DataFrame):
        vals = x.values
        try:
            vals = vals.astype(complex) if np.iscomplexobj(vals) else vals.astype(float)
        except (TypeError, ValueError):
            vals = vals.astype(str)
        return ("df", [str(c) for c in x.columns], np.array(x.index), vals)
    if isinstance(x, pd.Series):
        return ("series", np.array(x.index), np.asarray(x.values))
    if isinstance(x, np.ndarray):
        return x
    if isinstance(x, (list, tuple)):
        return [canon(v, depth + 1) for v in x]
    if isinstance(x, dict):
        return {str(k): canon(v, depth + 1) for k, v in x.items()}
    if isinstance(x, (np.generic,)):
        return x.item()
    return x


def same(a, b):
    if isinstance(a, np.ndarray) or isinstance(b, np.ndarray):
        if not (isinstance(a, np.ndarray) and isinstance(b, np.ndarray)) or a.shape != b.shape or a.dtype != b.dtype:
            return False
        if a.dtype.kind in "fc":
            return bool(np.array_equal(a, b, equal_nan=True))
        return bool(np.array_equal(a, b))
    if isinstance(a, (list, tuple)):
        return isinstance(b, (list, tuple)) and len(a) == len(b) and all(same(x, y) for x, y in zip(a, b))
    if isinstance(a, dict):
        return isinstance(b, dict) and a.keys() == b.keys() and all(same(a[k], b[k]) for k in a)
    if isinstance(a, float) and isinstance(b, float) and a != a and b != b:
        return True
    return type(a) is type(b) and a == b


def describe_diff(a, b, path="result"):
    if isinstance(a, np.ndarray) and isinstance(b, np.ndarray):
        if a.shape != b.shape or a.dtype != b.dtype:
            return f"{path}: shape/dtype {a.shape}/{a.dtype} vs {b.shape}/{b.dtype}"
        with np.errstate(all="ignore"):
            try:
                return f"{path}: max abs difference {np.nanmax(np.abs(a.astype(complex) - b.astype(complex))):.3g}"
            except Exception:  # noqa: BLE001
                return f"{path}: arrays differ"
    if isinstance(a, (list, tuple)) and isinstance(b, (list, tuple)) and len(a) == len(b):
        for k, (x, y) in enumerate(zip(a, b)):
            if not same(x, y):
                return describe_diff(x, y, f"{path}[{k}]")
    if isinstance(a, dict) and isinstance(b, dict) and a.keys() == b.keys():
        for k in a:
            if not same(a[k], b[k]):
                return describe_diff(a[k], b[k], f"{path}[{k!r}]")
    return f"{path}: {str(a)[:80]} vs {str(b)[:80]}"


# ------------------------------------------------------------------ files vs returned values
_NUM = re.compile(r"^[+-]?(\d+\.?\d*|\.\d+)([eE][+-]?\d+)?$")


def token_tol(tok):
    """half a unit in the last written place of a numeric token"""
    m = _NUM.match(tok)
    if not m:
        return None
    mant, ex = (tok.lower().split("e") + ["0"])[:2]
    dec = len(mant.split(".")[1]) if "." in mant else 0
    return 0.5000001 * 10.0 ** (int(ex) - dec)


def parse_text_table(path, sep=None):
    """numeric rows of a text file (header lines skipped) -> (values list of rows, tolerances list of rows)"""
    vals, tols = [], []
    with open(path) as f:
        for line in f:
            t = line.strip().split(sep) if sep else line.split()
            t = [x.strip() for x in t if x.strip() != ""]
            if not t:
                continue
            tl = [token_tol(x) for x in t]
            if any(v is None for v in tl):
                if all(x.lower() in ("nan", "inf", "-inf") or token_tol(x) is not None for x in t):
                    vals.append([float(x) for x in t])
                    tols.append([0.0 if v is None else v for v in tl])
                continue
            vals.append([float(x) for x in t])
            tols.append(tl)
    return vals, tols


def file_matches(path, expected):
    """expected: 2-D or 1-D real/complex array (or DataFrame values).  returns (ok, message)"""
    exp = np.asarray(expected)
    if path.endswith(".npy"):
        got = np.load(path, allow_pickle=False)
        if got.shape != exp.shape:
            return False, f"{os.path.basename(path)}: shape {got.shape} vs returned {exp.shape}"
        return bool(np.array_equal(got, exp, equal_nan=True)), f"{os.path.basename(path)}: binary content differs from the returned array"
    sep = "," if path.endswith(".csv") else None
    vals, tols = parse_text_table(path, sep)
    if exp.ndim == 1:
        exp = exp[:, None]
    exp = exp.reshape(exp.shape[0], -1) if exp.ndim > 2 else exp
    if len(vals) != exp.shape[0] or any(len(r) != exp.shape[1] for r in vals):
        return False, f"{os.path.basename(path)}: {len(vals)} x {len(vals[0]) if vals else 0} numbers vs returned {exp.shape}"
    got = np.array(vals, dtype=float)
    tol = np.array(tols, dtype=float)
    e = exp.real.astype(float) if np.iscomplexobj(exp) else exp.astype(float)
    with np.errstate(all="ignore"):
        bad = ~((np.abs(got - e) <= tol + 4e-16 * np.abs(e)) | (np.isnan(got) & np.isnan(e)) | (got == e))
    if bad.any():
        i, j = np.argwhere(bad)[0]
        return False, f"{os.path.basename(path)}: row {i} col {j}: file {got[i, j]!r} vs returned {e[i, j]!r} (written precision {tol[i, j]:.1g})"
    return True, ""


# ------------------------------------------------------------------ session (shared pool)
class Session:
    def __init__(self, rng, wd):
        self.rng = rng
        self.wd = wd
        self.pool = {}
        self.files = {}
        self.vor_ok = {}
        self.build()

    def traj(self, d, N, T, K, origin_kind, centred_zero_sum=False):
        rng = self.rng
        cell = gc.make_cell(rng, d, "ortho", lmin=4.0, lmax=7.0, origin_kind=origin_kind)
        L = np.diag(cell["H"]).copy()
        f0 = gc.make_frac(rng, d, N, "hardcore")
        types = gc.make_types(rng, N, K)
        unwrapped = [cell["origin"] + f0 * L]
        for _ in range(1, T):
            unwrapped.append(unwrapped[-1] + rng.normal(0, 0.12, size=(N, d)))
        xs, xus = [], []
        for t in range(T):
            xu = unwrapped[t]
            x = cell["origin"] + (xu - cell["origin"]) % L
            xs.append(gc.snapshot_from(cell, None, types, timestep=100 * t, positions=x))
            xus.append(gc.snapshot_from(cell, None, types, timestep=100 * t, positions=xu.copy()))
        return gc.snapshots_from(xs), gc.snapshots_from(xus), cell

    def build(self):
        rng = self.rng
        P = self.pool
        T = int(rng.choice([3, 4]))
        N2, N3 = int(rng.integers(18, 31)), int(rng.integers(16, 27))
        self.T, self.N = T, {2: N2, 3: N3}
        self.K = {2: 2, 3: int(rng.choice([2, 3]))}
        ok2 = str(rng.choice(["zero", "neg", "asym", "centred"]))
        ok3 = str(rng.choice(["zero", "neg", "asym", "centred", "centred"]))
        P["x2"], P["xu2"], self.cell2 = self.traj(2, N2, T, 2, ok2)
        P["x3"], P["xu3"], self.cell3 = self.traj(3, N3, T, self.K[3], ok3)
        N2, N3 = P["x2"].snapshots[0].nparticle, P["x3"].snapshots[0].nparticle
        self.N = {2: N2, 3: N3}
        P["xt2"], P["xt3"] = self.sheared(2), self.sheared(3)
        # a tiny 3-D trajectory in a box centred on the origin (bounds sum to zero) and a tiny 2-D one: Voronoi volume response
        P["tiny3"], _, self.cellt3 = self.traj(3, 9, 2, 1, "centred")
        P["tiny2"], _, self.cellt2 = self.traj(2, 10, 2, 1, str(rng.choice(["zero", "centred", "asym"])))
        for d, N in ((2, N2), (3, N3)):
            P[f"scal{d}"] = rng.normal(size=(T, N))
            P[f"cplx{d}"] = rng.normal(size=(T, N)) + 1j * rng.normal(size=(T, N))
            b = np.zeros((T, N), dtype=bool)
            m = int(rng.integers(4, N - 2))
            for t in range(T):
                b[t, rng.choice(N, size=m, replace=False)] = True
            P[f"bool{d}"] = b
            P[f"vec{d}"] = rng.normal(size=(T, N, d))
            ten = rng.normal(size=(T, N, d, d))
            P[f"ten{d}"] = 0.5 * (ten + np.swapaxes(ten, -1, -2))
            L = np.diag((self.cell2 if d == 2 else self.cell3)["H"])
            nint = np.array([[1, 0, 0], [0, 1, 0], [1, 1, 0], [2, 0, 0], [0, 2, 1], [1, 1, 1], [0, 0, 2], [2, 1, 0]])[:, :d]
            nint = np.unique(nint, axis=0)
            nint = nint[np.abs(nint).sum(axis=1) > 0]
            P[f"qint{d}"] = nint.astype(int)
            P[f"qvec{d}"] = 2 * np.pi * nint / L
            K = self.K[d]
            s = rng.uniform(0.12, 0.3, size=(K, K))
            P[f"s2sig{d}"] = 0.5 * (s + s.T)
            P[f"cluster{d}"] = rng.normal(size=(int(rng.integers(5, 40)), d)) * rng.uniform(0.5, 3, size=d) + rng.uniform(-5, 5, size=d)
            P[f"ppp{d}"] = np.ones(d, dtype=int)
            P[f"ngrids{d}"] = np.array([4, 3, 2][:d])
        ang = rng.uniform(0, 2 * np.pi, size=(T, N2))
        U = np.stack([np.cos(ang), np.sin(ang)], axis=2)
        if rng.random() < 0.5:
            # orientation vectors that are not of unit length (dipole moments mux muy straight from a dump): still just arrays that
            # no analysis may touch
            U = U * rng.uniform(0.5, 2.0, size=(T, N2, 1))
        P["orient2"] = gc.snapshots_from([gc.snapshot_from(self.cell2, None, np.ones(N2, dtype=int), 100 * t, positions=U[t]) for t in range(T)])
        P["pack_sig"] = np.array([[1.0, 1.2], [1.2, 1.4]]) * 0.9
        P["diam"] = {k: float(rng.uniform(0.8, 1.2)) for k in range(1, 4)}
        K3 = self.K[3]
        sym = lambda M: 0.5 * (M + M.T)  # noqa: E731
        P["h_eps"] = sym(rng.uniform(0.5, 2.0, size=(K3, K3)))
        P["h_sig"] = sym(rng.uniform(0.8, 1.1, size=(K3, K3)))
        P["h_rc"] = sym(rng.uniform(1.3, 1.9, size=(K3, K3))) * P["h_sig"]
        P["h_eps2"], P["h_sig2"], P["h_rc2"] = P["h_eps"][:2, :2].copy(), P["h_sig"][:2, :2].copy(), P["h_rc"][:2, :2].copy()
        nm = 3 * N3
        q, _ = np.linalg.qr(rng.normal(size=(nm, nm)))
        P["evecs"] = q
        P["freqs"] = rng.uniform(0.5, 5, size=nm)
        # the same values in the in-memory representations callers really hand over: Fortran order (scipy.linalg.eigh returns
        # Fortran-ordered eigenvectors, pandas blocks are transposed), strided views (a column block of a wider table)
        self.layouts = {}
        for k in sorted(P):
            v = P[k]
            if isinstance(v, np.ndarray) and v.ndim >= 2 and v.dtype.kind in "fc":
                u = rng.random()
                if u < 0.3:
                    if v.ndim == 3 and u < 0.2:
                        # every per-frame slice [t] is itself Fortran-contiguous (a (T, d, N) block seen as (T, N, d))
                        P[k] = np.transpose(np.ascontiguousarray(np.transpose(v, (0, 2, 1))), (0, 2, 1))
                        self.layouts[k] = "fortran-per-frame"
                    else:
                        P[k] = np.asfortranarray(v)
                        self.layouts[k] = "fortran"
                elif u < 0.5:
                    big = np.zeros(v.shape[:-1] + (2 * v.shape[-1] + 1,), dtype=v.dtype)
                    big[..., 1::2] = v
                    P[k] = big[..., 1::2]
                    self.layouts[k] = "strided"

    def snap(self, d, xu=False, tri=False):
        if tri:
            return self.pool["xt" + str(d)]
        return self.pool[("xu" if xu else "x") + str(d)]

    def sheared(self, d):
        """the wrapped trajectory of dimension d re-expressed in a triclinic cell with the SAME edge lengths and an own tilt per frame
        (same particles, types and fractional coordinates): analyses called on it and on the orthogonal one interleave in a program"""
        rng = self.rng
        base = self.pool["x" + str(d)]
        cell = dict(self.cell2 if d == 2 else self.cell3)
        cell["kind"] = "tri"
        out = []
        for s in base.snapshots:
            c = gc.retilt(rng, cell)
            frac = (s.positions - cell["origin"]) / np.diag((self.cell2 if d == 2 else self.cell3)["H"])
            out.append(gc.snapshot_from(c, frac, s.particle_type.copy(), timestep=s.timestep))
        return gc.snapshots_from(out)


# ------------------------------------------------------------------ entry-point recipes
# every recipe returns dict(name, thunk(outdir)->(result, {path: expected_array}), args={...extra arrays...}, key)
def recipes():
    import PyMatterSim.static.gr as m_gr
    import PyMatterSim.static.sq as m_sq
    import PyMatterSim.static.boo as m_boo
    import PyMatterSim.static.geometric as m_geo
    import PyMatterSim.static.pairentropy as m_s2
    import PyMatterSim.static.hessians as m_h
    import PyMatterSim.static.shape as m_shape
    import PyMatterSim.static.vector as m_vec
    import PyMatterSim.static.nematic as m_nem
    import PyMatterSim.dynamic.dynamics as m_dyn
    import PyMatterSim.dynamic.time_corr as m_tc
    import PyMatterSim.neighbors.calculate_neighbors as m_cn
    import PyMatterSim.neighbors.freud_neighbors as m_fr
    import PyMatterSim.utils.coarse_graining as m_cg
    import PyMatterSim.utils.pbc as m_pbc
    import PyMatterSim.utils.funcs as m_funcs
    import PyMatterSim.utils.geometry as m_geom
    R = []

    def reg(fn):
        R.append(fn)
        return fn

    def J(o, name):
        return os.path.join(o, name)

    @reg
    def r_gr(S, rng):
        d = int(rng.choice([2, 3]))
        w = float(rng.choice([0.05, 0.1, 0.2]))
        out = rng.random() < 0.5
        tri = bool(rng.random() < 0.35)
        sn, ppp = S.snap(d, tri=tri), S.pool[f"ppp{d}"]

        def thunk(o):
            p = J(o, "gr.csv") if out else None
            res = m_gr.gr(sn, ppp=ppp, rdelta=w, outputfile=p).getresults()
            return res, ({p: res.values} if out else {})
        return dict(name="gr.getresults", par=(d, w, out, tri), thunk=thunk, make=lambda: m_gr.gr(sn, ppp=ppp, rdelta=w, outputfile=None),
                    call=lambda b, o, meth=None: (b.getresults(), {}), methods=["getresults"])

    @reg
    def r_sq(S, rng):
        d = int(rng.choice([2, 3]))
        mode = str(rng.choice(["qrange", "qvector"]))
        out = rng.random() < 0.5
        savq = out and rng.random() < 0.4
        onlypos = bool(rng.random() < 0.3)
        sn, qi = S.snap(d), S.pool[f"qint{d}"]

        def thunk(o):
            p = J(o, "sq.csv") if out else None
            kw = dict(qrange=6.0, onlypositive=onlypos) if mode == "qrange" else dict(qvector=qi)
            res = m_sq.sq(sn, saveqvectors=savq, outputfile=p, **kw).getresults()
            return res, ({p: res.values} if out else {})
        return dict(name="sq.getresults", par=(d, mode, out, savq, onlypos), thunk=thunk,
                    make=lambda: m_sq.sq(sn, **(dict(qrange=6.0, onlypositive=onlypos) if mode == "qrange" else dict(qvector=qi))),
                    call=lambda b, o, meth=None: (b.getresults(), {}), methods=["getresults"])

    @reg
    def r_cgr(S, rng):
        d = int(rng.choice([2, 3]))
        kind = str(rng.choice(["scal", "cplx", "bool", "vec", "ten"]))
        t = int(rng.integers(0, S.T))
        ctype = {"vec": "vector", "ten": "tensor"}.get(kind)
        tri = bool(rng.random() < 0.35)
        sn, ppp, cond = S.snap(d, tri=tri).snapshots[t], S.pool[f"ppp{d}"], S.pool[f"{kind}{d}"][t]
        return dict(name="conditional_gr", par=(d, kind, t, tri),
                    thunk=lambda o: (m_gr.conditional_gr(sn, cond, ctype, ppp, 0.1), {}))

    @reg
    def r_csq(S, rng):
        d = int(rng.choice([2, 3]))
        kind = str(rng.choice(["scal", "cplx", "bool", "vec"]))
        t = int(rng.integers(0, S.T))
        sn, q, cond = S.snap(d).snapshots[t], S.pool[f"qvec{d}"], S.pool[f"{kind}{d}"][t]
        return dict(name="conditional_sq", par=(d, kind, t), thunk=lambda o: (m_sq.conditional_sq(sn, q, cond), {}))

    def nb_file(S, d, kind="nn"):
        """neighbour file of the pool trajectory, written once per session by the repository's own routine (itself a monitored step)"""
        key = (d, kind)
        if key not in S.files:
            p = os.path.join(S.wd, f"nl_{kind}{d}.dat")
            if kind == "nn":
                m_cn.Nnearests(S.snap(d), 6 if d == 2 else 8, S.pool[f"ppp{d}"], p)
            elif kind == "vor":
                m_fr.cal_neighbors(S.snap(d), os.path.join(S.wd, f"vor{d}"))
                p = os.path.join(S.wd, f"vor{d}.neighbor.dat")
                S.files[(d, "vorw")] = os.path.join(S.wd, f"vor{d}." + ("edgelength" if d == 2 else "facearea") + ".dat")
                # a cell that borders its own periodic image (box too small) is outside the domain of the bond-order routines
                with open(p) as f:
                    S.vor_ok[d] = not any(t and t[0] != "id" and t[0] in t[2:] for t in (ln.split() for ln in f))
            S.files[key] = p
        return S.files[key]

    def read_files(paths):
        return {os.path.basename(p): open(p).read() for p in paths}

    @reg
    def r_nnearest(S, rng):
        d = int(rng.choice([2, 3]))
        Nn = int(rng.integers(3, 9))
        tri = bool(rng.random() < 0.35)
        sn, ppp = S.snap(d, tri=tri), S.pool[f"ppp{d}"]

        def thunk(o):
            p = J(o, "nn.dat")
            r = m_cn.Nnearests(sn, Nn, ppp, p)
            return [r, read_files([p])], {}
        return dict(name="Nnearests", par=(d, Nn, tri), thunk=thunk)

    @reg
    def r_cutoff(S, rng):
        d = int(rng.choice([2, 3]))
        rc = float(rng.uniform(1.2, 1.9))
        typed = rng.random() < 0.5
        tri = bool(rng.random() < 0.35)
        sn, ppp = S.snap(d, tri=tri), S.pool[f"ppp{d}"]
        K = S.K[d]
        rcm = np.full((K, K), rc) * (1 + 0.1 * np.arange(K)[:, None])

        def thunk(o):
            p = J(o, "cut.dat")
            r = m_cn.cutoffneighbors_particletype(sn, rcm, ppp, p) if typed else m_cn.cutoffneighbors(sn, rc, ppp, p)
            return [r, read_files([p])], {}
        return dict(name="cutoffneighbors_particletype" if typed else "cutoffneighbors", par=(d, rc, typed, tri), thunk=thunk, args={"rcm": rcm})

    @reg
    def r_voronoi(S, rng):
        d = int(rng.choice([2, 3]))
        sn = S.snap(d)

        def thunk(o):
            r = m_fr.cal_neighbors(sn, J(o, "v"))
            return [r, read_files(sorted(J(o, f) for f in os.listdir(o) if f.startswith("v.")))], {}
        return dict(name="cal_neighbors", par=(d,), thunk=thunk)

    @reg
    def r_volmat(S, rng):
        d = int(rng.choice([2, 3]))
        k = int(rng.integers(0, 2))
        tr = bool(rng.random() < 0.3)
        out = rng.random() < 0.5
        sn = S.pool[f"tiny{d}"]

        def thunk(o):
            p = J(o, "vm") if out else ""
            A = m_fr.VolumeMatrix(sn, d, k, 0.01, tr, p)
            return A, ({p + ".npy": A} if out else {})
        return dict(name="VolumeMatrix", par=(d, k, tr, out), thunk=thunk)

    @reg
    def r_boo3(S, rng):
        l = int(rng.choice([4, 6]))
        cg = bool(rng.random() < 0.5)
        meth = str(rng.choice(["qlm_Qlm", "ql_Ql", "sij_ql_Ql", "w_W_cap", "spatial_corr", "time_corr"]))
        wts = rng.random() < 0.3
        out = rng.random() < 0.6
        ext = str(rng.choice([".npy", ".dat", ".txt"]))
        sn, ppp = S.snap(3), S.pool["ppp3"]
        if wts:
            nb_file(S, 3, "vor")
            wts = S.vor_ok[3]
        nl = nb_file(S, 3, "vor" if wts else "nn")
        wf = S.files[(3, "vorw")] if wts else None

        def call(b, o, meth=meth, cg=cg):
            alt = meth.endswith("~")          # history variant: the same method with the OTHER coarse-graining flag / threshold
            meth = meth.rstrip("~")
            if alt:
                cg = not cg
            if meth == "qlm_Qlm":
                return list(b.qlm_Qlm()), {}
            if meth == "ql_Ql":
                p = J(o, "ql" + ext) if out else None
                r = b.ql_Ql(cg, p)
                f = {}
                if out:
                    f[p + ".npy" if not p.endswith(".npy") else p] = r
                    if ext != ".npy":
                        f[p] = r
                return r, f
            if meth == "sij_ql_Ql":
                p1, p2 = (J(o, "sum.csv"), J(o, "sij.dat")) if out else (None, None)
                r = b.sij_ql_Ql(cg, 0.5 if alt else 0.7, p1, p2)
                return r, ({p2: r} if out else {})
            if meth == "w_W_cap":
                p1, p2 = (J(o, "w" + ext), J(o, "wcap" + ext)) if out else (None, None)
                r = b.w_W_cap(cg, p1, p2)
                f = {}
                if out:
                    for p, a in ((p1, r[0]), (p2, r[1])):
                        f[p + ".npy" if not p.endswith(".npy") else p] = a
                        if ext != ".npy":
                            f[p] = a
                return list(r), f
            if meth == "spatial_corr":
                p = J(o, "gl.csv") if out else ""
                r = b.spatial_corr(cg, 0.1, p)
                return r, ({p: r.values} if out else {})
            p = J(o, "tc.csv") if out else ""
            r = b.time_corr(cg, 0.002, p)
            return r, ({p: r.values} if out else {})

        def thunk(o):
            return call(m_boo.boo_3d(sn, l, nl, wf, ppp, 30), o)
        return dict(name="boo_3d." + meth, par=(l, cg, wts, out, ext), thunk=thunk, call=call,
                    make=lambda: m_boo.boo_3d(sn, l, nl, wf, ppp, 30),
                    methods=["qlm_Qlm", "ql_Ql", "sij_ql_Ql", "w_W_cap", "spatial_corr", "time_corr", "ql_Ql~", "sij_ql_Ql~", "w_W_cap~",
                             "spatial_corr~", "time_corr~"])

    @reg
    def r_boo2(S, rng):
        l = int(rng.choice([4, 6]))
        meth = str(rng.choice(["lthorder", "time_average", "spatial_corr", "time_corr"]))
        wts = rng.random() < 0.3
        out = rng.random() < 0.6
        avc = bool(rng.random() < 0.5)
        sn, ppp = S.snap(2), S.pool["ppp2"]
        if wts:
            nb_file(S, 2, "vor")
            wts = S.vor_ok[2]
        nl = nb_file(S, 2, "vor" if wts else "nn")
        wf = S.files[(2, "vorw")] if wts else ""

        def call(b, o, meth=meth):
            alt = meth.endswith("~")          # history variant: the same method with other arguments
            meth = meth.rstrip("~")
            if meth == "lthorder":
                p = J(o, "phi.npy") if out else ""
                r = b.lthorder(p)
                return r, ({p: r} if out else {})
            if meth == "time_average":
                p = J(o, "tav.npy") if out else ""
                r = b.time_average(0.6 if alt else 0.4, 0.002, (not avc) if alt else avc, p)     # 2 (3) frames of 100 steps * 0.002
                return list(r), ({p: r[0], p + ".snapshot_id.dat": r[1]} if out else {})
            if meth == "spatial_corr":
                p = J(o, "g6.csv") if out else ""
                r = b.spatial_corr(0.15 if alt else 0.1, p)
                return r, ({p: r.values} if out else {})
            p = J(o, "tc.csv") if out else ""
            r = b.time_corr(0.005 if alt else 0.002, p)
            return r, ({p: r.values} if out else {})

        def thunk(o):
            return call(m_boo.boo_2d(sn, l, nl, wf, ppp, 10), o)
        return dict(name="boo_2d." + meth, par=(l, wts, out, avc), thunk=thunk, call=call, make=lambda: m_boo.boo_2d(sn, l, nl, wf, ppp, 10),
                    methods=["lthorder", "time_average", "spatial_corr", "time_corr", "time_average~", "spatial_corr~", "time_corr~"])

    @reg
    def r_tetra(S, rng):
        out = rng.random() < 0.5
        tri = bool(rng.random() < 0.35)
        sn, ppp = S.snap(3, tri=tri), S.pool["ppp3"]

        def thunk(o):
            p = J(o, "q8.npy") if out else ""
            r = m_geo.q8_tetrahedral(sn, ppp, p)
            return r, ({p: r} if out else {})
        return dict(name="q8_tetrahedral", par=(out, tri), thunk=thunk)

    @reg
    def r_pack(S, rng):
        out = rng.random() < 0.5
        sn, ppp, sig = S.snap(2), S.pool["ppp2"], S.pool["pack_sig"]
        nl = nb_file(S, 2, "vor")
        if not S.vor_ok[2]:
            nl = nb_file(S, 2, "nn")

        def thunk(o):
            p = J(o, "pc.npy") if out else ""
            r = m_geo.packing_capability_2d(sn, sig, nl, ppp, p)
            return r, ({p: r} if out else {})
        return dict(name="packing_capability_2d", par=(out,), thunk=thunk)

    @reg
    def r_s2(S, rng):
        d = int(rng.choice([2, 3]))
        meth = str(rng.choice(["particle_s2", "particle_s2", "spatial_corr", "time_corr"]))
        out = rng.random() < 0.5
        mean_norm = bool(rng.random() < 0.5)
        tri = bool(rng.random() < 0.35)
        sn, ppp, sig = S.snap(d, tri=tri), S.pool[f"ppp{d}"], S.pool[f"s2sig{d}"]

        def call(b, o, meth=meth):
            alt = meth.endswith("~")          # history variant: the same method with other arguments
            meth = meth.rstrip("~")
            if meth == "particle_s2":
                p = J(o, "s2.npy") if out else ""
                r = b.particle_s2(False, p)
                return r, ({p: r} if out else {})
            if meth != "particle_s2" and getattr(b, "_vmon_done", None) is None:
                b.particle_s2(False, "")          # the correlation methods work on the stored per-particle values
                b._vmon_done = True
            if meth == "spatial_corr":
                p = J(o, "s2g.csv") if out else ""
                r = b.spatial_corr((not mean_norm) if alt else mean_norm, p)
                return r, ({p: r.values} if out else {})
            p = J(o, "s2t.csv") if out else ""
            r = b.time_corr(0.005 if alt else 0.002, p)
            return r, ({p: r.values} if out else {})

        def thunk(o):
            return call(m_s2.S2(sn, sig, ppp, 0.05, 40), o)
        return dict(name="S2." + meth, par=(d, out, mean_norm, tri), thunk=thunk, call=call, make=lambda: m_s2.S2(sn, sig, ppp, 0.05, 40),
                    methods=["particle_s2", "spatial_corr", "time_corr", "spatial_corr~", "time_corr~"])

    @reg
    def r_hessian(S, rng):
        d = int(rng.choice([2, 3]))
        model = str(rng.choice(["lennard_jones", "inverse_power_law", "harmonic_hertz"]))
        t = int(rng.integers(0, S.T))
        sn, ppp = S.snap(d).snapshots[t], S.pool[f"ppp{d}"]
        K = S.K[d]
        sfx = "" if K == S.K[3] else "2"
        eps, sig, rc = S.pool["h_eps" + sfx], S.pool["h_sig" + sfx], S.pool["h_rc" + sfx]
        masses = {k: 1.0 + 0.5 * k for k in range(1, K + 1)}
        ip = m_h.InteractionParams(model_name=getattr(m_h.ModelName, model), ipl_n=10.0, ipl_A=1.0, harmonic_hertz_alpha=2.5)

        def thunk(o):
            hm = m_h.HessianMatrix(snapshot=sn, masses=masses, epsilons=eps, sigmas=sig, r_cuts=(sig if model == "harmonic_hertz" else rc),
                                   ppp=ppp, shiftpotential=True)
            r = hm.diagonalize_hessian(ip, True, True, J(o, "h"))
            import pandas as pd
            return [r, np.load(J(o, "h.hessianmatrix.npy")), np.abs(np.load(J(o, "h.evecs.npy"))), pd.read_csv(J(o, "h.omega_PR.csv"))], {}
        return dict(name="HessianMatrix.diagonalize_hessian", par=(d, model, t), thunk=thunk, args={"masses": masses})

    @reg
    def r_gyration(S, rng):
        d = int(rng.choice([2, 3]))
        pos = S.pool[f"cluster{d}"]
        return dict(name="gyration_tensor", par=(d,), thunk=lambda o: (list(m_shape.gyration_tensor(pos)), {}))

    @reg
    def r_vec_simple(S, rng):
        d = int(rng.choice([2, 3]))
        which = str(rng.choice(["participation_ratio", "local_vector_alignment", "phase_quotient", "divergence_curl"]))
        t = int(rng.integers(0, S.T))
        v, sn, ppp = S.pool[f"vec{d}"][t], S.snap(d).snapshots[0], S.pool[f"ppp{d}"]
        nl = nb_file(S, d, "nn")

        def thunk(o):
            if which == "participation_ratio":
                return m_vec.participation_ratio(v), {}
            if which == "local_vector_alignment":
                return m_vec.local_vector_alignment(v, nl), {}
            if which == "phase_quotient":
                return m_vec.phase_quotient(v, nl), {}
            return list(m_vec.divergence_curl(sn, v, ppp, nl)), {}
        return dict(name=which, par=(d, t), thunk=thunk)

    @reg
    def r_vibrability(S, rng):
        out = rng.random() < 0.5
        fr, ev, N = S.pool["freqs"], S.pool["evecs"], S.N[3]

        def thunk(o):
            p = J(o, "vib.npy") if out else ""
            r = m_vec.vibrability(fr, ev, N, p)
            return r, ({p: r} if out else {})
        return dict(name="vibrability", par=(out,), thunk=thunk)

    @reg
    def r_vdecomp(S, rng):
        d = int(rng.choice([2, 3]))
        t = int(rng.integers(0, S.T))
        out = rng.random() < 0.5
        sn, q, v = S.snap(d).snapshots[t], S.pool[f"qvec{d}"], S.pool[f"vec{d}"][t]

        def thunk(o):
            p = J(o, "vd.csv") if out else ""
            r = m_vec.vector_decomposition_sq(sn, q, v, p)
            return list(r), ({p: r[1].values} if out else {})
        return dict(name="vector_decomposition_sq", par=(d, t, out), thunk=thunk)

    @reg
    def r_vfft(S, rng):
        d = int(rng.choice([2, 3]))
        sn, q, v = S.snap(d), S.pool[f"qvec{d}"], S.pool[f"vec{d}"]

        def thunk(o):
            p = J(o, "vf")
            r = m_vec.vector_fft_corr(sn, q, v, 0.002, p)
            return r, {p + ".FFT.npy": r["FFT"].values, p + ".T_FFT.npy": r["T_FFT"].values, p + ".L_FFT.npy": r["L_FFT"].values}
        return dict(name="vector_fft_corr", par=(d,), thunk=thunk)

    @reg
    def r_nematic(S, rng):
        meth = str(rng.choice(["tensor", "tensor", "tensor_other", "spatial_corr", "time_corr"]))
        use_nl = rng.random() < 0.5
        eig = bool(rng.random() < 0.5)
        out = rng.random() < 0.6
        ori, pos, ppp = S.pool["orient2"], S.snap(2), S.pool["ppp2"]
        nl = nb_file(S, 2, "nn") if use_nl else ""

        def call(b, o, meth=meth):
            base = J(o, "nem")
            if meth in ("tensor", "tensor_other"):
                e = eig if meth == "tensor" else (not eig)
                r = b.tensor(2, nl, 30, e, base)
                return [r, np.asarray(b.QIJ)], {base + (".eigval.npy" if e else ".Qtrace.npy"): r,
                                                base + (".QIJ_cg.npy" if use_nl else ".QIJ_raw.npy"): np.asarray(b.QIJ)}
            if getattr(b, "_vmon_done", None) is None:
                b.tensor(2, nl, 30, eig, base)        # the correlation methods work on the stored tensor
                b._vmon_done = True
            if meth == "spatial_corr":
                p = J(o, "gq.csv") if out else ""
                r2 = b.spatial_corr(0.1, ppp, p)
                return r2, ({p: r2.values} if out else {})
            p = J(o, "tq.csv") if out else ""
            r2 = b.time_corr(0.002, p)
            return r2, ({p: r2.values} if out else {})

        def thunk(o):
            return call(m_nem.NematicOrder(ori, pos), o)
        return dict(name="NematicOrder." + meth.replace("_other", ""), par=(meth, use_nl, eig, out), thunk=thunk, call=call,
                    make=lambda: m_nem.NematicOrder(ori, pos), methods=["tensor", "tensor_other", "spatial_corr", "time_corr"])

    @reg
    def r_dynamics(S, rng):
        d = int(rng.choice([2, 3]))
        mode = str(rng.choice(["xu", "x", "both"]))
        klass = str(rng.choice(["Dynamics", "Dynamics", "LogDynamics"]))
        meth = "relaxation" if klass == "LogDynamics" or rng.random() < 0.7 else "sq4"
        slow = bool(rng.random() < 0.7)
        cage = rng.random() < 0.3
        sel = rng.random() < 0.4
        out = rng.random() < 0.5
        xu, x, diam = S.snap(d, True), S.snap(d), S.pool["diam"]
        ppp = S.pool[f"ppp{d}"]
        nl = nb_file(S, d, "nn") if cage else ""
        cond = (S.pool[f"bool{d}"][0] if klass == "LogDynamics" else S.pool[f"bool{d}"]) if sel else None

        def make():
            kw = dict(dt=0.002, ppp=ppp, diameters=diam, a=0.3, cal_type="slow" if slow else "fast", neighborfile=nl, max_neighbors=30)
            if mode in ("xu", "both"):
                kw["xu_snapshots"] = xu
            if mode in ("x", "both"):
                kw["x_snapshots"] = x
            return getattr(m_dyn, klass)(**kw)

        # variants used as *history* on one object: other wave number, other selection (or none), other lag / wave-number range
        other_cond = (~cond if (cond is not None and (~cond).sum() >= 2) else None) if sel else \
            (S.pool[f"bool{d}"][0] if klass == "LogDynamics" else S.pool[f"bool{d}"])

        def call(obj, o, meth=meth):
            p = J(o, "dyn.csv") if out else ""
            if meth.startswith("relaxation"):
                r = obj.relaxation(qconst=4.5 if meth == "relaxation_other_q" else 6.0,
                                   condition=other_cond if meth == "relaxation_other_cond" else cond, outputfile=p)
            else:
                try:
                    if meth == "sq4_other":
                        r = obj.sq4(t=0.4, qrange=4.0, condition=other_cond, outputfile=p)
                    elif meth == "sq4_other_cond":          # the same lag and range, another selection (or none)
                        r = obj.sq4(t=0.2, qrange=6.0, condition=other_cond, outputfile=p)
                    else:
                        r = obj.sq4(t=0.2, qrange=6.0, condition=cond, outputfile=p)
                except ZeroDivisionError:
                    # an origin with an empty mobile / immobile subset: S4 undefined, outside the domain (DESIGN C06, R5)
                    return "undefined: empty mobility subset", {}
            return r, ({p: r.values} if out else {})

        def thunk(o):
            return call(make(), o)
        return dict(name=f"{klass}.{meth}", par=(d, mode, slow, cage, sel, out), thunk=thunk, make=make, call=call,
                    methods=["relaxation", "relaxation_other_q", "relaxation_other_cond"] + (["sq4", "sq4_other", "sq4_other_cond"] if klass == "Dynamics" else []))

    @reg
    def r_timecorr(S, rng):
        d = int(rng.choice([2, 3]))
        kind = str(rng.choice(["scal", "cplx", "vec", "ten"]))
        out = rng.random() < 0.5
        sn, cond = S.snap(d), S.pool[f"{kind}{d}"]

        def thunk(o):
            p = J(o, "tc.csv") if out else ""
            r = m_tc.time_correlation(sn, cond, 0.002, p)
            return r, ({p: r.values} if out else {})
        return dict(name="time_correlation", par=(d, kind, out), thunk=thunk)

    @reg
    def r_cg(S, rng):
        d = int(rng.choice([2, 3]))
        which = str(rng.choice(["time_average", "spatial_average", "gaussian_blurring"]))
        kind = str(rng.choice(["scal", "cplx", "vec"]))
        if which == "time_average" and kind == "vec":
            kind = "scal"
        out = rng.random() < 0.5
        sn, prop, ppp, ng = S.snap(d), S.pool[f"{kind}{d}"], S.pool[f"ppp{d}"], S.pool[f"ngrids{d}"]
        nl = nb_file(S, d, "nn")

        def thunk(o):
            if which == "time_average":
                return list(m_cg.time_average(sn, prop, 0.4, 0.002)), {}
            if which == "spatial_average":
                p = J(o, "sa.npy") if out else ""
                r = m_cg.spatial_average(prop, nl, 30, p)
                return r, ({p: r} if out else {})
            p = J(o, "gb") if out else ""
            r = m_cg.gaussian_blurring(sn, prop if kind != "cplx" else S.pool[f"scal{d}"], ng, 1.0, ppp, 3.0, p)
            return list(r), ({p + "_positions.npy": r[0], p + "_properties.npy": r[1]} if out else {})
        return dict(name=which, par=(d, kind, out), thunk=thunk)

    @reg
    def r_utils(S, rng):
        d = int(rng.choice([2, 3]))
        which = str(rng.choice(["remove_pbc", "moment_of_inertia", "triangle_area", "grid_gaussian", "convert_configuration", "sph_harm_l"]))
        if which == "moment_of_inertia":
            d = 3
        if which == "sph_harm_l":
            # bond angles handed over as 0-d arrays (what arr[i, j, ...] / np.arctan2 of 0-d operands / np.squeeze give): arrays like any other
            import PyMatterSim.utils.spherical_harmonics as m_sph
            l_ = int(rng.choice([2, 6, 10, 11, 14]))
            ang = {"theta": np.asarray(float(np.arccos(rng.uniform(-1, 1)))), "phi": np.asarray(float(rng.uniform(-np.pi, np.pi)))}
            return dict(name="sph_harm_l", par=(l_, float(ang["theta"]), float(ang["phi"])), args=ang,
                        thunk=lambda o: (np.asarray(m_sph.sph_harm_l(l_, ang["theta"], ang["phi"])), {}))
        tri = bool(rng.random() < 0.5)
        sn = S.snap(d, tri=tri and which == "remove_pbc").snapshots[int(rng.integers(0, S.T))]
        v, ppp = S.pool[f"vec{d}"][0], S.pool[f"ppp{d}"]
        tri = S.snap(2).snapshots[0].positions[:3]

        def thunk(o):
            if which == "remove_pbc":
                return m_pbc.remove_pbc(v, sn.hmatrix, ppp), {}
            if which == "moment_of_inertia":
                return m_funcs.moment_of_inertia(sn.positions, 1, False), {}
            if which == "triangle_area":
                return m_geom.triangle_area(tri, S.snap(2).snapshots[0].hmatrix, S.pool["ppp2"]), {}
            if which == "grid_gaussian":
                return m_funcs.grid_gaussian(S.pool[f"scal{d}"][0], 1.3), {}
            b, p = m_fr.convert_configuration(S.snap(d))
            return [np.asarray(x) for x in p], {}
        return dict(name=which, par=(d, tri), thunk=thunk)

    return R


# ------------------------------------------------------------------ program execution
def ambient_state():
    """process-wide settings that are hidden inputs of every later call: floating-point error handling, print options (they decide what
    np.savetxt / str() write), working directory, environment, default dtype behaviour"""
    import sys
    po = np.get_printoptions()
    return {"np.geterr": dict(np.geterr()), "np.printoptions": {k: repr(v) for k, v in po.items()}, "cwd": os.getcwd(),
            "environ": hash(frozenset(os.environ.items())), "recursionlimit": sys.getrecursionlimit(),
            "float_repr": repr(np.float64(0.1) + np.float64(0.2))}


def run_step(ctx, S, step, outdir, mon_files=True):
    """execute one step under the purity monitor; returns (ok, canonical result)"""
    objs = {"pool": S.pool, "args": step.get("args", {})}
    lv, frozen = freeze(objs)
    name = step["name"]
    amb0 = ambient_state()
    try:
        res, files = step["thunk"](outdir)
        err = None
    except Exception as e:  # noqa: BLE001
        res, files, err = None, {}, e
    amb1 = ambient_state()
    ctx.mon("ambient_state")["comparisons"] += 1
    if amb1 != amb0:
        diff = {k: (amb0[k], amb1[k]) for k in amb0 if amb0[k] != amb1[k]}
        # only state through which a LATER call with the same inputs returns something else / writes elsewhere is C18's business:
        # the working directory (relative output paths) and floating-point error handling switched to "raise" (later calls would raise
        # where they returned).  Anything else (numpy print options, which Nnearests widens process-wide for its own array2string
        # output and no other routine depends on; error handling switched to "ignore" / "warn") is recorded as a note, not a violation.
        bad = {}
        if "cwd" in diff:
            bad["cwd"] = diff["cwd"]
        if "np.geterr" in diff and any(v == "raise" and amb0["np.geterr"].get(k) != "raise" for k, v in amb1["np.geterr"].items()):
            bad["np.geterr"] = diff["np.geterr"]
        for k in sorted(set(diff) - set(bad)):
            ctx.note(f"{name} changes process-wide state '{k}' (observed; outside what C18 states, not a violation)")
        if bad:
            ctx.violation(f"{name}/ambient_state:{sorted(bad)[0]}", f"{name} changed process-wide state that later calls depend on: {bad}; parameters {step['par']}",
                          {"step": name, "par": step["par"], "changed": {k: [str(a), str(b)] for k, (a, b) in bad.items()}}, "ambient_state")
        try:
            np.seterr(**amb0["np.geterr"])
            os.chdir(amb0["cwd"])
        except Exception:  # noqa: BLE001
            pass
    ch = changed(lv, frozen)
    ctx.mon("purity")["comparisons"] += len(lv) + len(frozen["#scalars"])
    if ch:
        witness = tripwire(S, step, outdir + "_ro")
        for p, diff in ch[:3]:
            what = _array_kind(p)
            ctx.violation(f"{name}/impure:{what}", f"{name} modified its input {p} in place (max change {diff:.3g}); parameters {step['par']}",
                          {"step": name, "par": step["par"], "array": p, "max_change": diff, "write_site": witness}, "purity")
        # restore the pool so that later steps are judged on their own
        for p, a in lv.items():
            dt, sh, by = frozen[p]
            if a.shape == sh and a.dtype.str == dt:
                a[...] = np.frombuffer(by, dtype=a.dtype).reshape(sh)
    if err is not None:
        from ..core import _repo_frame
        ctx.violation(f"{name}/raises:{type(err).__name__}@{_repo_frame(err)}", f"{type(err).__name__}: {err}; parameters {step['par']}",
                      {"step": name, "par": step["par"], "traceback": "".join(traceback.format_exception(type(err), err, err.__traceback__, limit=6))}, "exceptions")
        return False, None
    if mon_files:
        for p, exp in files.items():
            if not os.path.exists(p):
                ctx.check("files", False, f"{name}/file_missing", f"{name}: requested output {os.path.basename(p)} was not written; parameters {step['par']}")
                continue
            ok, msg = file_matches(p, exp)
            ctx.check("files", ok, f"{name}/file_vs_returned", lambda: f"{name}: {msg}; parameters {step['par']}", {"step": name, "par": step["par"]})
    return True, canon(res)


def _array_kind(path):
    m = re.search(r"\.(positions|particle_type|boxlength|boxbounds|realbounds|hmatrix)$", path)
    if m:
        return "snapshot." + m.group(1)
    m = re.match(r"\['pool'\]\['([a-z_]+?)\d*'\]", path)
    return m.group(1) if m else path.split("[")[0]


def tripwire(S, step, outdir):
    """re-run the step with every pool array read-only: the in-place write raises at its source line"""
    os.makedirs(outdir, exist_ok=True)
    lv = leaves({"pool": S.pool, "args": step.get("args", {})})
    flags = {p: a.flags.writeable for p, a in lv.items()}
    site = None
    try:
        for a in lv.values():
            try:
                a.flags.writeable = False
            except ValueError:
                pass
        try:
            step["thunk"](outdir)
        except Exception as e:  # noqa: BLE001
            tb = e.__traceback__
            while tb is not None:
                fn = tb.tb_frame.f_code.co_filename
                if os.sep + "PyMatterSim" + os.sep in fn:
                    site = f"{os.path.basename(fn)}:{tb.tb_lineno} in {tb.tb_frame.f_code.co_name} ({type(e).__name__}: {e})"
                tb = tb.tb_next
    finally:
        for p, a in lv.items():
            try:
                a.flags.writeable = flags[p]
            except ValueError:
                pass
    return site


def same_layout_copy(a):
    """a new array with the same dtype, shape, STRIDES and values on its own buffer (so that summation order, and therefore every bit
    of a result, is the same as for the original)"""
    if a.flags.c_contiguous or a.size == 0 or any(st <= 0 for st in a.strides):
        return a.copy()
    extent = sum((n - 1) * st for n, st in zip(a.shape, a.strides)) + a.itemsize
    buf = np.zeros(extent, dtype=np.uint8)
    b = np.ndarray(a.shape, dtype=a.dtype, buffer=buf, strides=a.strides)
    b[...] = a
    return b


def clone(obj, memo=None, depth=0):
    """deep copy of pool objects with new identities everywhere and layout-preserving array copies"""
    import dataclasses
    memo = {} if memo is None else memo
    if id(obj) in memo:
        return memo[id(obj)]
    if isinstance(obj, np.ndarray):
        r = same_layout_copy(obj)
        if not obj.flags.writeable:
            r.setflags(write=False)
    elif isinstance(obj, dict):
        r = {k: clone(v, memo, depth + 1) for k, v in obj.items()}
    elif isinstance(obj, list):
        r = [clone(v, memo, depth + 1) for v in obj]
    elif isinstance(obj, tuple):
        r = tuple(clone(v, memo, depth + 1) for v in obj)
    elif hasattr(obj, "__dataclass_fields__"):
        r = type(obj)(**{f.name: clone(getattr(obj, f.name), memo, depth + 1) for f in dataclasses.fields(obj)})
    else:
        r = obj
    memo[id(obj)] = r
    return r


def plain_clone(obj, memo=None):
    """deep copy in which every array is a fresh, writable, C-contiguous array of the same dtype and values (types stay what they are)"""
    import dataclasses
    memo = {} if memo is None else memo
    if id(obj) in memo:
        return memo[id(obj)]
    if isinstance(obj, np.ndarray):
        r = np.array(obj, order="C", copy=True)
    elif isinstance(obj, dict):
        r = {k: plain_clone(v, memo) for k, v in obj.items()}
    elif isinstance(obj, list):
        r = [plain_clone(v, memo) for v in obj]
    elif isinstance(obj, tuple):
        r = tuple(plain_clone(v, memo) for v in obj)
    elif hasattr(obj, "__dataclass_fields__"):
        r = type(obj)(**{f.name: plain_clone(getattr(obj, f.name), memo) for f in dataclasses.fields(obj)})
    else:
        r = obj
    memo[id(obj)] = r
    return r


def close_enough(a, b, rtol=1e-9):
    """same structure, same discrete content, floating-point content equal to rtol of its own scale (NaN = NaN)"""
    if isinstance(a, np.ndarray) or isinstance(b, np.ndarray):
        if not (isinstance(a, np.ndarray) and isinstance(b, np.ndarray)) or a.shape != b.shape:
            return False
        if a.dtype.kind in "fc" or b.dtype.kind in "fc":
            with np.errstate(all="ignore"):
                x, y = a.astype(complex), b.astype(complex)
                fin = np.isfinite(x) & np.isfinite(y)
                scale = max(float(np.abs(x[fin]).max()) if fin.any() else 0.0, 1e-300)
                ok = (np.abs(x - y) <= rtol * scale + 1e-12) | (np.isnan(x) & np.isnan(y)) | (x == y)
            return bool(ok.all())
        if a.dtype.kind in "OUS" or b.dtype.kind in "OUS":
            return bool(np.array_equal(a.astype(str), b.astype(str)))
        return bool(np.array_equal(a, b))
    if isinstance(a, (list, tuple)):
        return isinstance(b, (list, tuple)) and len(a) == len(b) and all(close_enough(x, y, rtol) for x, y in zip(a, b))
    if isinstance(a, dict):
        return isinstance(b, dict) and a.keys() == b.keys() and all(close_enough(a[k], b[k], rtol) for k in a)
    if isinstance(a, float) and isinstance(b, float):
        return (a != a and b != b) or abs(a - b) <= rtol * max(abs(a), abs(b), 1e-300) + 1e-12
    if isinstance(a, complex) or isinstance(b, complex):
        return abs(complex(a) - complex(b)) <= rtol * max(abs(a), abs(b), 1e-300) + 1e-12
    return type(a) is type(b) and a == b


def layout_invariance_monitor(ctx, S, step, sd, k, res):
    """R7 as a relation on the real code: the same values handed over as plain C-contiguous arrays must give the same result (up to
    summation order) as in the representation the pool holds them in (Fortran order, strided views, read-only, uint32 type ids stay)"""
    import copy
    if "_rec" not in step:
        return
    S2 = copy.copy(S)
    S2.pool = plain_clone(S.pool)
    rng2 = np.random.default_rng(0)
    rng2.bit_generator.state = step["_rng_state"]
    o2 = os.path.join(sd, f"o{k}L")
    os.makedirs(o2)
    try:
        step2 = step["_rec"](S2, rng2)
        r_plain = canon(step2["thunk"](o2)[0])
    except Exception as e:  # noqa: BLE001
        ctx.violation(f"{step['name']}/layout_invariance/raises:{type(e).__name__}", f"{step['name']} {step['par']}: raises {type(e).__name__}: {e} on plain "
                      f"C-contiguous copies of inputs it handled in another representation", {"step": step["name"], "par": step["par"]}, "layout_invariance")
        return
    ctx.check("layout_invariance", close_enough(res, r_plain), f"{step['name']}/layout_dependent",
              lambda: f"{step['name']} {step['par']}: the result depends on the in-memory representation of the inputs (pool layouts "
                      f"{getattr(S, 'layouts', {})}): {describe_diff(r_plain, res)}", {"step": step["name"], "par": step["par"]})


def scramble(obj, depth=0):
    """what a caller may do with a result it was given: overwrite it in place (arrays zeroed, table columns zeroed)"""
    import pandas as pd
    if depth > 4:
        return
    try:
        if isinstance(obj, np.ndarray):
            if obj.flags.writeable and obj.dtype.kind in "fciub":
                obj[...] = 0
        elif isinstance(obj, pd.DataFrame):
            for c in list(obj.columns):
                obj[c] = 0.0
        elif isinstance(obj, (list, tuple)):
            for v in obj:
                scramble(v, depth + 1)
        elif isinstance(obj, dict):
            for v in obj.values():
                scramble(v, depth + 1)
    except Exception:  # noqa: BLE001  read-only results are fine
        pass


def update_in_place(S, mode):
    """a legitimate in-place update of the caller's own objects; returns [(array, saved copy)] for undoing it.  Timesteps, particle
    numbers, shapes and object identities stay what they were -- only values change:
      frames : the first two frames of every trajectory exchange their coordinates, every per-frame field its first two time slices
      dilate : every trajectory is dilated by 2 or 1/2 (coordinates, cell matrix, lengths, bounds -- exact in binary arithmetic)
      axes   : x and y are exchanged in every trajectory (coordinates, cell matrix, lengths, bounds)"""
    saved = []

    def put(a, new):
        if a is None or not a.flags.writeable:
            return
        saved.append((a, a.copy()))
        a[...] = new

    for k, v in S.pool.items():
        if hasattr(v, "snapshots"):
            if mode == "frames" and len(v.snapshots) >= 2:
                a, b = v.snapshots[0].positions, v.snapshots[1].positions
                if a.shape == b.shape and a.flags.writeable and b.flags.writeable:
                    t = a.copy()
                    put(a, b)
                    put(b, t)
            elif mode == "dilate" and not k.startswith("orient"):
                f = 2.0 if len(k) % 2 else 0.5
                for sn in v.snapshots:
                    if all(x is None or x.flags.writeable for x in (sn.positions, sn.hmatrix, sn.boxlength, sn.boxbounds, sn.realbounds)):
                        for x in (sn.positions, sn.hmatrix, sn.boxlength, sn.boxbounds, sn.realbounds):
                            if x is not None:
                                put(x, x * f)
            elif mode == "axes" and not k.startswith(("orient", "xt")):
                for sn in v.snapshots:
                    if all(x is None or x.flags.writeable for x in (sn.positions, sn.hmatrix, sn.boxlength, sn.boxbounds)) and sn.realbounds is None:
                        ax = [1, 0] + list(range(2, sn.positions.shape[1]))
                        put(sn.positions, sn.positions[:, ax].copy())
                        put(sn.hmatrix, sn.hmatrix[ax][:, ax].copy())
                        put(sn.boxlength, sn.boxlength[ax].copy())
                        put(sn.boxbounds, sn.boxbounds[ax].copy())
        elif mode == "frames" and isinstance(v, np.ndarray) and v.ndim >= 2 and v.shape[0] == S.T and v.flags.writeable and re.match(r"(scal|cplx|bool|vec|ten)\d", k):
            t = v.copy()
            t[0], t[1] = v[1], v[0]
            put(v, t)
    return saved


def updated_in_place_monitor(ctx, S, step, sd, k, mode):
    """after the caller updated its arrays in place, a call on the SAME objects must return what a call on fresh objects holding the same
    values returns (no result may be remembered under an object's identity, timestep, shape or box)"""
    import copy
    if "_rec" not in step:
        return
    saved = update_in_place(S, mode)
    try:
        o1, o2 = os.path.join(sd, f"o{k}u1"), os.path.join(sd, f"o{k}u2")
        os.makedirs(o1), os.makedirs(o2)
        try:
            r_same = canon(step["thunk"](o1)[0])
        except Exception as e:  # noqa: BLE001
            r_same = ("raised", type(e).__name__)
        S2 = copy.copy(S)
        S2.pool = clone(S.pool)
        rng2 = np.random.default_rng(0)
        rng2.bit_generator.state = step["_rng_state"]
        try:
            step2 = step["_rec"](S2, rng2)
            r_fresh = canon(step2["thunk"](o2)[0])
        except Exception as e:  # noqa: BLE001
            r_fresh = ("raised", type(e).__name__)
        if isinstance(r_fresh, tuple) and r_fresh[:1] == ("raised",):
            ctx.skip("updated_in_place")        # the updated configuration is outside this entry point's domain (e.g. empty mobility subset)
            return
        ctx.check("updated_in_place", same(r_same, r_fresh), f"{step['name']}/stale_after_in_place_update",
                  lambda: f"{step['name']} {step['par']}: after the caller's arrays were updated in place ({mode}) the call on the same "
                          f"objects differs from the call on fresh objects with the same values: {describe_diff(r_fresh, r_same)}",
                  {"step": step["name"], "par": step["par"], "update": mode})
        ctx.count("updated_in_place_" + mode)
    finally:
        for a, old in reversed(saved):
            a[...] = old


def plan(S, rng, R, notes=None):
    """the program as data: [("new", step) | ("repeat", index of an earlier entry)]"""
    nsteps = int(rng.integers(12, 21))
    order = list(rng.permutation(len(R)))
    prog, news = [], []
    for k in range(nsteps):
        if news and rng.random() < 0.33:
            prog.append(("repeat", news[int(rng.integers(0, len(news)))]))
            continue
        rec = R[order[k % len(order)]] if rng.random() < 0.7 else R[int(rng.integers(0, len(R)))]
        st = rng.bit_generator.state
        try:
            step = rec(S, rng)
            step["_rec"], step["_rng_state"] = rec, st
        except Exception as e:  # noqa: BLE001  building arguments runs repository code too (neighbour files)
            if notes is not None:
                notes.append(f"recipe {rec.__name__} could not be prepared: {type(e).__name__}: {e}")
            continue
        step["reuse"] = bool("make" in step and rng.random() < 0.6)
        # a call history on ONE object: 1-3 other methods first, then the step's own method
        step["before"] = [str(m) for m in rng.choice(step["methods"], size=int(rng.integers(1, 4)))] if "methods" in step else []
        news.append(len(prog))
        prog.append(("new", step))
    return prog


def program(ctx, rng, wd, R, pno, fresh_replay=False):
    from ..harness import fresh_dir, drop_dir
    from ..core import digest
    key = list(ctx._last_key)
    sd = fresh_dir(f"sess{pno}")
    S = Session(rng, sd)
    notes = []
    prog = plan(S, rng, R, notes)
    for n_ in notes:
        ctx.note(n_)
    results = {}
    held = []
    for k, (kind, item) in enumerate(prog):
        out = os.path.join(sd, f"o{k}")
        os.makedirs(out, exist_ok=True)
        if kind == "repeat":
            step, prev = prog[item][1], results.get(item)
            ok, res = run_step(ctx, S, step, out)
            ctx.case("repeat/" + step["name"], step["name"], step["par"], pno, k, nontrivial=ok)
            if ok and prev is not None:
                ctx.check("repeat", same(res, prev), f"{step['name']}/repeat",
                          lambda: f"{step['name']} {step['par']} returned something else when called again with the same inputs "
                                  f"({k - item - 1} other calls in between): {describe_diff(prev, res)}", {"step": step["name"], "par": step["par"]})
            continue
        step = item
        ok, res = run_step(ctx, S, step, out)
        ctx.case(step["name"], step["name"], step["par"], pno, k, nontrivial=ok,
                 sample={"step": step["name"], "parameters": step["par"], "program": pno, "position": k})
        if ok:
            results[k] = res
            held.append((step, res, digest(res)))       # what the caller now holds: must still be this when the program is over
        u = np.random.default_rng(key + [k, 4242]).random()
        if ok and 0.3 <= u < 0.5:
            layout_invariance_monitor(ctx, S, step, sd, k, res)
        if ok and u < 0.3:
            updated_in_place_monitor(ctx, S, step, sd, k, "frames" if u < 0.12 else ("dilate" if u < 0.21 else "axes"))
        # instance reuse: the same method twice on ONE instance must agree with a fresh instance; and after a history of OTHER
        # method calls on one instance the method must still return what a fresh instance returns
        if ok and step["reuse"]:
            try:
                inst = step["make"]()
                o1, o2 = os.path.join(sd, f"o{k}a"), os.path.join(sd, f"o{k}b")
                os.makedirs(o1), os.makedirs(o2)
                raw1 = step["call"](inst, o1)[0]
                r1 = clone(canon(raw1))
                scramble(raw1)          # the caller normalises / overwrites the table it was given; the object must not notice
                r2 = canon(step["call"](inst, o2)[0])
                ctx.check("instance_reuse", same(r1, res) and same(r2, res), f"{step['name']}/instance_reuse",
                          lambda: f"{step['name']} {step['par']}: calling the method twice on one instance differs from a fresh instance: "
                                  f"{describe_diff(res, r1 if not same(r1, res) else r2)}", {"step": step["name"], "par": step["par"]})
                inst = step["make"]()
                for q, m in enumerate(step["before"]):
                    oq = os.path.join(sd, f"o{k}h{q}")
                    os.makedirs(oq)
                    step["call"](inst, oq, m)
                oq = os.path.join(sd, f"o{k}hz")
                os.makedirs(oq)
                r3 = canon(step["call"](inst, oq)[0])
                ctx.check("instance_history", same(r3, res), f"{step['name']}/instance_history",
                          lambda: f"{step['name']} {step['par']}: after calling {step['before']} on the same object the method returns something else "
                                  f"than on a fresh object: {describe_diff(res, r3)}", {"step": step["name"], "par": step["par"], "before": step["before"]})
            except Exception as e:  # noqa: BLE001
                ctx.violation(f"{step['name']}/instance_reuse/raises:{type(e).__name__}", f"{type(e).__name__}: {e}", {"par": step["par"]}, "exceptions")
    # results held by the caller while later calls were made: a routine that hands out a scratch buffer it re-uses is right when it
    # returns and wrong one call later
    for step, res, dg in held:
        ctx.check("held_results", digest(res) == dg, f"{step['name']}/result_changed_later",
                  f"{step['name']} {step['par']}: the object returned to the caller was changed by a later call", {"step": step["name"], "par": step["par"]})
    drop_dir(sd)
    if fresh_replay:
        # history independence: the same steps, executed in REVERSE order by a fresh interpreter (no earlier call in its history),
        # must give bit-identical results
        mine = {str(k): digest(v) for k, v in results.items()}
        theirs = replay_in_fresh_process(key)
        if theirs is None:
            ctx.skip("fresh_process_replay")
        else:
            for k, dg in mine.items():
                if k not in theirs:
                    continue
                step = prog[int(k)][1]
                ctx.check("fresh_process_replay", theirs[k] == dg, f"{step['name']}/history_dependent",
                          f"{step['name']} {step['par']}: result in this session (after {k} earlier calls of the program and all earlier programs of "
                          f"the process) differs from the result of the same call in a fresh interpreter running the program backwards",
                          {"step": step["name"], "par": step["par"]})


def replay_in_fresh_process(key):
    import json
    import subprocess
    import sys
    from .. import VERIF_DIR
    env = dict(os.environ)
    env["PYTHONPATH"] = VERIF_DIR + (os.pathsep + env["PYTHONPATH"] if env.get("PYTHONPATH") else "")
    env["PYTHONHASHSEED"] = "0"
    try:
        r = subprocess.run([sys.executable, "-m", "vmon.props.C18", json.dumps([int(x) for x in key])], capture_output=True, text=True,
                           timeout=600, env=env, cwd=VERIF_DIR)
    except subprocess.TimeoutExpired:
        return None
    for line in r.stdout.splitlines():
        if line.startswith("DIGESTS "):
            return json.loads(line[8:])
    return None


def _child(key):
    """fresh interpreter: rebuild the same session and plan from the RNG key, run the distinct steps in reverse order"""
    import json
    from .. import harness
    from ..core import digest
    harness.prepare("C18")
    rng = np.random.default_rng(key)
    sd = harness.fresh_dir("replay")
    S = Session(rng, sd)
    prog = plan(S, rng, recipes())
    out = {}
    for k in reversed(range(len(prog))):
        kind, step = prog[k]
        if kind != "new":
            continue
        o = os.path.join(sd, f"o{k}")
        os.makedirs(o, exist_ok=True)
        try:
            res, _files = step["thunk"](o)
            out[str(k)] = digest(canon(res))
        except Exception:  # noqa: BLE001  the forward run reports exceptions
            pass
    harness.cleanup()
    print("DIGESTS " + json.dumps(out))


def repo_tests_under_monitors(ctx, tdir):
    """thorough tier: one directory of the repository's own tests is run as a WORKLOAD (real file sizes) with the purity monitor and
    the in-situ contracts on (vmon/pytest_plugin.py); what the monitors saw is merged into this check."""
    import json
    import shutil
    import subprocess
    import sys
    import tempfile
    from .. import DEPS, REPO, VERIF_DIR
    if not os.path.isdir(os.path.join(REPO, "tests", tdir)):
        ctx.note(f"repository tests/{tdir} not found")
        return
    wd = tempfile.mkdtemp(prefix="vmon_c18_tests_")
    try:
        os.symlink(os.path.join(REPO, "tests"), os.path.join(wd, "tests"))        # the tests read tests/sample_test_data relative to the cwd
        os.symlink(os.path.join(REPO, "PyMatterSim"), os.path.join(wd, "PyMatterSim"))
        out = os.path.join(wd, "plugin.json")
        env = dict(os.environ, VMON_PLUGIN_OUT=out, PYTHONPATH=os.pathsep.join([wd, VERIF_DIR, DEPS]), PYTHONHASHSEED="0", PYTHONDONTWRITEBYTECODE="1")
        try:
            subprocess.run([sys.executable, "-m", "pytest", "-q", "-p", "no:cacheprovider", "-p", "vmon.pytest_plugin", "--timeout=900",
                            "--continue-on-collection-errors", f"tests/{tdir}"], cwd=wd, env=env, capture_output=True, text=True, timeout=2400)
        except subprocess.TimeoutExpired:
            ctx.note(f"repository tests/{tdir} under monitors: watchdog")
            return
        if not os.path.exists(out):
            ctx.note(f"repository tests/{tdir} under monitors: no plug-in report")
            return
        with open(out) as f:
            rep = json.load(f)
        ctx.mon("purity_repo_tests")["comparisons"] += int(rep["arrays_compared"])
        ctx.extra.setdefault("repo_tests_under_monitors", {})[tdir] = {"tests": rep["tests"], "entry_point_calls": rep["calls"],
                                                                      "insitu_contract_evaluations": rep["insitu"]}
        for k, v in rep["insitu"].items():
            d = ctx.insitu.setdefault(k, {})
            for site, n in v.items():
                d["repo-tests:" + site] = d.get("repo-tests:" + site, 0) + n
        for v in rep["purity_violations"]:
            ctx.violation(f"{v['entry_point']}/impure:{_array_kind(v['array'])}", f"repository test {v['test']}: {v['entry_point']} modified its input "
                          f"{v['array']} in place (max change {v['max_change']})", v, "purity_repo_tests")
        for v in rep["contract_violations"]:
            ctx.violation(v["key"], "repository tests under contracts: " + v["what"], v.get("data"), "insitu_repo_tests")
    finally:
        shutil.rmtree(wd, ignore_errors=True)


def run(ctx):
    from ..harness import fresh_dir, drop_dir
    if ctx.thorough and ctx.shard < 6:
        repo_tests_under_monitors(ctx, ["static", "dynamics", "neighbors", "utils", "reader", "writer"][ctx.shard])
    wd = fresh_dir("c18")
    R = recipes()
    ctx.extra["entry_point_recipes"] = len(R)
    n = ctx.n(160, 60)
    for p in range(n):
        rng = ctx.rng()
        program(ctx, rng, wd, R, p, fresh_replay=(p % (8 if ctx.tier == "quick" else 3) == 1))
        if ctx.out_of_time():
            break
    drop_dir(wd)


if __name__ == "__main__":
    import json as _json
    import sys as _sys
    _child(_json.loads(_sys.argv[1]))
