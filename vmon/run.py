"""Entry point: ./check <Cxx> [--tier quick|thorough] [--replay FILE]

The parent shards a tier over worker subprocesses (subprocess.run-style with a timeout per
shard — never multiprocessing.Pool, which hangs when a child dies), merges their logs,
writes evidence/<id>.json and prints the verdict.
"""
from __future__ import annotations

import argparse
import importlib
import json
import os
import subprocess
import sys
import tempfile
import time
import traceback

from . import VERIF_DIR


def spec_of(pid):
    mod = importlib.import_module(f"vmon.props.{pid}")
    return mod, getattr(mod, "SPEC", {})


def worker(args):
    from . import core, harness, interpose
    pid = args.pid
    ctx = core.Ctx(pid, args.tier, args.seed, args.shard, args.nshards)
    status = 0
    try:
        harness.prepare(pid)
        mod, spec = spec_of(pid)
        budget = spec.get("timeout_quick", 600) if args.tier == "quick" else spec.get("timeout_thorough", 3000)
        ctx.deadline = time.time() + 0.8 * budget
        for m, err in harness.import_errors().items():
            ctx.extra.setdefault("import_errors", {})[m] = err
        ctx.extra["contracts_installed"] = interpose.install_standard(ctx, spec.get("insitu", ("pbc", "read_neighbors", "pr", "sph")))
        mod.run(ctx)
    except core.Inconclusive as e:
        ctx.extra["inconclusive"] = str(e)
    except core.FailFast as e:
        ctx.extra["failfast"] = str(e)
    except Exception:  # noqa: BLE001 harness failure: loud, and never a silent pass
        traceback.print_exc()
        ctx.extra["harness_error"] = traceback.format_exc(limit=6)
        status = 3
    finally:
        try:
            _mod, spec = spec_of(pid)
            rep, hit = harness.reach_report(spec.get("anchors", []))
            ctx.extra["reach"] = rep
            ctx.extra["reach_detail"] = {a: {"hit": v["hit"], "body": v["body"]} for a, v in harness.REACH_DETAIL.items()}
            ctx.extra["reach_functions"] = {k: int(v) for k, v in hit.items()}
            ctx.extra["fp_events"] = harness.fp_report()["events"]
            ctx.extra["fp_sites"] = harness.fp_report()["repo_sites_first40"]
            from .gen import config as _gc
            if _gc.LAYOUT_COUNTS:
                ctx.extra["snapshot_layouts"] = dict(_gc.LAYOUT_COUNTS)   # snapshots handed over per in-memory representation
            try:
                from .props import C06 as _c06
                if _c06.ROW_ORDER_COUNTS:
                    ctx.extra["neighbour_files_written_by_the_harness"] = dict(_c06.ROW_ORDER_COUNTS)
            except Exception:  # noqa: BLE001
                pass
            if _gc.UNIT_COUNTS:
                ctx.extra["other_units_of_length"] = dict(_gc.UNIT_COUNTS)
            if _gc.UNWRAP_COUNTS:
                ctx.extra["unwrapped_coordinates"] = dict(_gc.UNWRAP_COUNTS)
            if _gc.BIG_COUNTS:
                ctx.extra["systems_beyond_usual_size"] = {str(k): v for k, v in _gc.BIG_COUNTS.items()}
        except Exception:  # noqa: BLE001
            traceback.print_exc()
        interpose.uninstall()
        with open(args.shard_out, "w") as f:
            json.dump(ctx.result(), f)
        harness.cleanup()
    return status


def parent(args):
    from . import core
    pid = args.pid
    _mod, spec = spec_of(pid)
    t0 = time.time()
    if args.replay:
        with open(args.replay) as f:
            entry = json.load(f)
        args.tier, args.seed = entry["tier"], entry["seed"]
        shards = [entry["shard"]]
        nshards = entry.get("nshards") or (spec.get("quick_procs", 1) if args.tier == "quick" else spec.get("thorough_procs", 16))
    else:
        nshards = spec.get("quick_procs", 1) if args.tier == "quick" else spec.get("thorough_procs", 16)
        shards = list(range(nshards))
    timeout = spec.get("timeout_quick", 600) if args.tier == "quick" else spec.get("timeout_thorough", 3000)
    tmpd = tempfile.mkdtemp(prefix=f"vmon_{pid}_parent_")
    procs = []
    env = dict(os.environ)
    env["PYTHONPATH"] = VERIF_DIR + (os.pathsep + env["PYTHONPATH"] if env.get("PYTHONPATH") else "")
    env["PYTHONHASHSEED"] = "0"
    for s in shards:
        out = os.path.join(tmpd, f"shard{s}.json")
        log = open(os.path.join(tmpd, f"shard{s}.log"), "w")
        cmd = [sys.executable, "-m", "vmon.run", pid, "--tier", args.tier, "--seed", str(args.seed),
               "--shard", str(s), "--nshards", str(nshards), "--shard-out", out]
        procs.append((s, subprocess.Popen(cmd, stdout=log, stderr=subprocess.STDOUT, env=env, cwd=VERIF_DIR), out, log))
    results, reasons = [], []
    if os.environ.get("VERIF_FAILFAST"):   # self-test only: one shard has seen a violation -> the others need not finish
        while any(p.poll() is None for _s, p, _o, _l in procs) and time.time() - t0 < timeout:
            hit = False
            for _s, p, out, _l in procs:
                if p.poll() is not None and os.path.exists(out):
                    try:
                        with open(out) as f:
                            hit = hit or bool(json.load(f).get("violations"))
                    except ValueError:
                        pass
            if hit:
                for _s, p, _o, _l in procs:
                    if p.poll() is None:
                        p.kill()
                break
            time.sleep(0.5)
    for s, p, out, log in procs:
        left = max(5.0, timeout - (time.time() - t0))
        try:
            rc = p.wait(timeout=left)
        except subprocess.TimeoutExpired:
            p.kill()
            p.wait()
            rc = None
            reasons.append(f"shard {s} hit the wall-clock watchdog ({timeout}s)")
        log.close()
        if os.path.exists(out):
            with open(out) as f:
                r = json.load(f)
            results.append(r)
            if r.get("extra", {}).get("inconclusive"):
                reasons.append(f"shard {s}: {r['extra']['inconclusive']}")
            if r.get("extra", {}).get("harness_error"):
                reasons.append(f"shard {s}: harness error: {r['extra']['harness_error'][-400:]}")
        elif rc is not None:
            with open(log.name) as f:
                tail = f.read()[-800:]
            reasons.append(f"shard {s} died (exit {rc}) without a result: {tail}")
        if rc not in (0, None) and os.path.exists(out):
            with open(log.name) as f:
                sys.stderr.write(f.read()[-2000:])
    merged = core.merge(results) if results else core.merge([])
    if not results:
        merged["evaluations"] = 0
    for r in results:
        for v in r["violations"]:
            v["nshards"] = nshards
    code = core.finish(pid, args.tier, args.seed, merged, spec, time.time() - t0, reasons)
    import shutil
    shutil.rmtree(tmpd, ignore_errors=True)
    return code


def main(argv=None):
    ap = argparse.ArgumentParser()
    ap.add_argument("pid")
    ap.add_argument("--tier", default=os.environ.get("VERIF_TIER") or "quick", choices=["quick", "thorough"])
    ap.add_argument("--seed", type=int, default=int(os.environ.get("VERIF_SEED") or 0))
    ap.add_argument("--replay")
    ap.add_argument("--shard", type=int)
    ap.add_argument("--nshards", type=int, default=1)
    ap.add_argument("--shard-out")
    args = ap.parse_args(argv)
    if args.shard is not None and args.shard_out:
        return worker(args)
    return parent(args)


if __name__ == "__main__":
    sys.exit(main())
