"""LAMMPS dump writer model: draws the *truth* first, then emits text under the LAMMPS conventions.

The truth returned for a frame contains the values as *tokens parsed back* (float(token)), so the
expected fields are exactly what the file encodes.
"""
from __future__ import annotations

import numpy as np


def fmt_num(x, style):
    if style == "repr":
        return repr(float(x))
    if style == "g":
        return "%.10g" % x
    if style == "e":
        return "%.16e" % x
    if style == "f":
        return "%.6f" % x
    raise ValueError(style)


def gen_frame_truth(rng, d, coord, cellkind, N, K, fmtstyle, origin_kind, unit=1.0):
    """returns dict with tokens + float truth for one frame; `unit` rescales every length (units si: boxes of a few 1e-9)"""
    L = rng.uniform(1.0, 30.0, size=3) * unit
    if rng.random() < 0.2:
        L[:] = L[0]
    if origin_kind == "zero":
        lo = np.zeros(3)
    elif origin_kind == "neg":
        lo = -rng.uniform(0.1, 1.0, size=3) * L
    elif origin_kind == "large":
        lo = rng.uniform(100, 5000, size=3) * rng.choice([-1, 1], size=3) * unit
    elif origin_kind == "centred":
        lo = -L / 2
    else:
        lo = rng.uniform(-7, 7, size=3) * unit
    xy = xz = yz = 0.0
    tri = cellkind != "ortho"
    if tri:
        s = {"tri+": (1, 1, 1), "tri-": (-1, -1, -1), "tri0": (0, 0, 0)}.get(cellkind)
        if s is None:
            s = rng.choice([-1, 1], size=3)
        xy = s[0] * rng.uniform(0.02, 0.5) * L[0]
        if d == 3:
            xz = s[1] * rng.uniform(0.02, 0.5) * L[0]
            yz = s[2] * rng.uniform(0.02, 0.5) * L[1]
    if d == 2:
        lo[2], L[2] = -0.5 * unit, 1.0 * unit
    # tokens for the box; the truth is what the tokens say
    if tri:
        xlo_b = lo[0] + min(0.0, xy, xz, xy + xz)
        xhi_b = lo[0] + L[0] + max(0.0, xy, xz, xy + xz)
        ylo_b = lo[1] + min(0.0, yz)
        yhi_b = lo[1] + L[1] + max(0.0, yz)
        rows = [(xlo_b, xhi_b, xy), (ylo_b, yhi_b, xz), (lo[2], lo[2] + L[2], yz)]
    else:
        rows = [(lo[k], lo[k] + L[k]) for k in range(3)]
    box_tokens = [[fmt_num(v, fmtstyle) for v in r] for r in rows]
    boxf = np.array([[float(t) for t in r] for r in box_tokens])
    # real bounds from the file's numbers (LAMMPS Howto_triclinic)
    if tri:
        fxy, fxz, fyz = boxf[0, 2], boxf[1, 2], boxf[2, 2]
        rlo = np.array([boxf[0, 0] - min(0.0, fxy, fxz, fxy + fxz), boxf[1, 0] - min(0.0, fyz), boxf[2, 0]])
        rhi = np.array([boxf[0, 1] - max(0.0, fxy, fxz, fxy + fxz), boxf[1, 1] - max(0.0, fyz), boxf[2, 1]])
    else:
        fxy = fxz = fyz = 0.0
        rlo, rhi = boxf[:, 0].copy(), boxf[:, 1].copy()
    Lf = rhi - rlo
    Hfull = np.array([[Lf[0], 0, 0], [fxy, Lf[1], 0], [fxz, fyz, Lf[2]]])

    types = rng.integers(1, K + 1, size=N)
    # coordinates by id
    if coord == "xs":
        raw = rng.random((N, 3))
        if rng.random() < 0.2 and N:
            raw[rng.integers(0, N)] = 0.0
        if rng.random() < 0.25 and N:
            # atoms that left the cell since the last re-wrap: scaled values slightly or well outside [0,1)
            exc = rng.random((N, 3)) < 0.3
            raw = np.where(exc, raw + rng.choice([-1.0, 1.0], size=(N, 3)) * rng.uniform(0.0, 0.9, size=(N, 3)), raw)
    elif coord == "xu":
        raw = rlo + (rng.uniform(-3, 4, size=(N, 3))) @ Hfull
    else:  # wrapped style
        frac = rng.random((N, 3))
        if not tri:
            # excursions of strictly less than one box length on some atoms/axes
            exc = rng.random((N, 3)) < 0.25
            frac = np.where(exc, frac + rng.choice([-1.0, 1.0], size=(N, 3)) * rng.uniform(0.0, 0.98, size=(N, 3)), frac)
            frac = np.clip(frac, -0.98, 1.98)
        raw = rlo + frac @ Hfull
    if d == 2:
        raw[:, 2] = 0.0
    ptoks = [[fmt_num(v, fmtstyle) for v in row] for row in raw]
    on_boundary = 0
    if coord == "x" and not tri and N and rng.random() < 0.3:
        # atoms sitting EXACTLY on a face of the box (the very token of the bound: what LAMMPS prints for an atom it has just re-wrapped
        # onto xlo, or for a wall atom at xhi): they are inside the closed box and must come back unchanged
        for _ in range(int(rng.integers(1, 4))):
            i, k = int(rng.integers(0, N)), int(rng.integers(0, d))
            ptoks[i][k] = box_tokens[k][int(rng.integers(0, 2))]
            on_boundary += 1
    pf =np.array([[float(t) for t in row] for row in ptoks]).reshape(N, 3)
    return {"d": d, "coord": coord, "tri": tri, "N": N, "types": types, "box_tokens": box_tokens, "boxf": boxf,
            "rlo": rlo, "rhi": rhi, "L": Lf, "H": Hfull, "tilt": (fxy, fxz, fyz), "ptoks": ptoks, "pf": pf,
            "on_boundary": on_boundary}


def expected_positions(fr):
    """what the file encodes, per id; for wrapped orthogonal style returns None (checked by clauses)."""
    d = fr["d"]
    if fr["coord"] == "xu" or (fr["coord"] == "x" and fr["tri"]):
        return fr["pf"][:, :d].copy(), "bitwise"
    if fr["coord"] == "xs":
        s = fr["pf"]
        if d == 2:
            s = s.copy()
            s[:, 2] = 0.0
        return (fr["rlo"] + s @ fr["H"])[:, :d], "mapped"
    return None, "wrapped"


ALIAS = {"x": (["xu", "yu", "zu"], ["xs", "ys", "zs"], ["ix", "iy", "iz"]), "xu": (["x", "y", "z"], ["xs", "ys", "zs"], ["ix", "iy", "iz"]),
         "xs": (["x", "y", "z"], ["xu", "yu", "zu"], ["ix", "iy", "iz"])}


def emit(rng, frames, timesteps, order, extra_cols, spurious_z, flags, ws, alias_extras=None):
    """text of the dump. order: 'sorted'|'reversed'|'random'. returns (text, extras_by_frame)"""
    out = []
    extras_all = []
    sep = {"single": " ", "double": "  ", "tab": "\t", "mixed": " \t "}[ws]
    for fr, ts in zip(frames, timesteps):
        d, N = fr["d"], fr["N"]
        out.append("ITEM: TIMESTEP\n")
        out.append(f"{ts}\n")
        out.append("ITEM: NUMBER OF ATOMS\n")
        out.append(f"{N}\n")
        out.append("ITEM: BOX BOUNDS " + ("xy xz yz " if fr["tri"] else "") + flags + "\n")
        for r in fr["box_tokens"]:
            out.append(" ".join(r) + "\n")
        names = {"x": ["x", "y", "z"], "xs": ["xs", "ys", "zs"], "xu": ["xu", "yu", "zu"]}[fr["coord"]]
        ncoord = 3 if (d == 3 or spurious_z) else 2
        extra_names = [f"c_e{k}" for k in range(extra_cols)]
        if alias_extras is not None and extra_cols:
            # trailing columns that carry ANOTHER coordinate style or the image flags (dump custom id type x y z xu yu zu): extra columns
            # like any other -- the coordinate columns are the ones right after id and type
            pool = ALIAS[fr["coord"]][alias_extras % 3]
            extra_names = (pool[:ncoord] + [f"c_e{k}" for k in range(extra_cols)])[:extra_cols]
        out.append("ITEM: ATOMS id type " + " ".join(names[:ncoord] + extra_names) + (" \n" if rng.random() < 0.5 else "\n"))
        ids = np.arange(N)
        o_ = order
        if order == "mixed":          # every frame has its own line order; the FIRST frame is in id order (a freshly created configuration)
            o_ = "sorted" if len(extras_all) == 0 else ("random" if len(extras_all) % 2 else "reversed")
        if o_ == "reversed":
            ids = ids[::-1]
        elif o_ == "random":
            ids = rng.permutation(N)
        extras = rng.normal(size=(N, extra_cols)).round(5)
        extras_all.append(extras)
        for i in ids:
            toks = [str(i + 1), str(int(fr["types"][i]))] + fr["ptoks"][i][:ncoord] + ["%g" % v for v in extras[i]]
            line = sep.join(toks)
            if ws == "mixed" and rng.random() < 0.3:
                line = "  " + line + "  "
            out.append(line + "\n")
    return "".join(out), extras_all


def independent_parse(path, ndim):
    """30-line parser of the ITEM grammar used for the repository's sample files (x / xu styles only)."""
    frames = []
    with open(path) as f:
        lines = f.read().split("\n")
    i = 0
    while i < len(lines) and lines[i].startswith("ITEM: TIMESTEP"):
        ts = int(lines[i + 1])
        n = int(lines[i + 3])
        hdr = lines[i + 4].split()
        box = [[float(v) for v in lines[i + 5 + k].split()] for k in range(3)]
        cols = lines[i + 8].split()[2:]
        rows = [lines[i + 9 + k].split() for k in range(n)]
        ids = np.array([int(r[0]) for r in rows])
        types = np.zeros(n, dtype=int)
        types[ids - 1] = [int(r[1]) for r in rows]
        pos = np.zeros((n, ndim))
        cx = [cols.index(c) for c in cols if c in ("x", "y", "z", "xu", "yu", "zu", "xs", "ys", "zs")][:ndim]
        for r in rows:
            pos[int(r[0]) - 1] = [float(r[c]) for c in cx]
        frames.append({"ts": ts, "n": n, "tri": "xy" in hdr, "box": np.array(box), "cols": cols, "types": types, "pos": pos})
        i += 9 + n
    return frames
