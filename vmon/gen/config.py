"""Workload generators: cells, positions, species, trajectories (no repository code used
except the SingleSnapshot / Snapshots record types, which are the data interface)."""
from __future__ import annotations

import itertools

import numpy as np


def records():
    from PyMatterSim.reader.reader_utils import SingleSnapshot, Snapshots
    return SingleSnapshot, Snapshots


# ------------------------------------------------------------------ cells
def make_cell(rng, d, kind="ortho", lmin=3.0, lmax=12.0, origin_kind=None, pow2=False):
    """returns dict(H, lengths, origin, tilt(xy,xz,yz), kind)"""
    if pow2:
        L = np.array([float(2 ** rng.integers(1, 4)) for _ in range(d)])
    else:
        L = rng.uniform(lmin, lmax, size=d)
        if rng.random() < 0.15:
            L[:] = L[0]
    xy = xz = yz = 0.0
    if kind.startswith("tri"):
        sgn = {"tri+": (1, 1, 1), "tri-": (-1, -1, -1)}.get(kind)
        if sgn is None:
            sgn = rng.choice([-1, 1], size=3)
        xy = sgn[0] * rng.uniform(0.05, 0.5) * L[0]
        if d == 3:
            xz = sgn[1] * rng.uniform(0.05, 0.5) * L[0]
            yz = sgn[2] * rng.uniform(0.05, 0.5) * L[1]
        if kind == "tri0":
            xy = xz = yz = 0.0
    H = np.zeros((3, 3))
    H[0] = [L[0], 0, 0]
    H[1] = [xy, L[1], 0]
    if d == 3:
        H[2] = [xz, yz, L[2]]
    H = H[:d, :d].copy()
    ok = origin_kind or rng.choice(["zero", "neg", "large", "asym", "centred"])
    if ok == "zero":
        origin = np.zeros(d)
    elif ok == "neg":
        origin = -rng.uniform(0.1, 1.0, size=d) * L
    elif ok == "large":
        origin = rng.uniform(50, 500, size=d) * rng.choice([-1, 1], size=d)
    elif ok == "centred":
        origin = -L / 2
    else:
        origin = rng.uniform(-3, 3, size=d)
    return {"H": H, "L": L.copy(), "origin": origin, "tilt": (xy, xz, yz), "kind": kind, "d": d}


def perp_widths(H):
    """perpendicular widths of the cell along each lattice direction: 1/|column k of H^-1|"""
    Hinv = np.linalg.inv(H)
    return 1.0 / np.linalg.norm(Hinv, axis=0)


# ------------------------------------------------------------------ positions (fractional -> Cartesian)
def lattice_frac(d, kind, ncell):
    if d == 2:
        basis = {"sq": [[0, 0]], "hexrect": [[0, 0], [0.5, 0.5]]}.get(kind, [[0, 0]])
    else:
        basis = {"sc": [[0, 0, 0]], "bcc": [[0, 0, 0], [.5, .5, .5]],
                 "fcc": [[0, 0, 0], [.5, .5, 0], [.5, 0, .5], [0, .5, .5]]}.get(kind, [[0, 0, 0]])
    pts = []
    for idx in itertools.product(*[range(n) for n in ncell]):
        for b in basis:
            pts.append([(i + bb) / n for i, bb, n in zip(idx, b, ncell)])
    return np.array(pts)


def make_frac(rng, d, N, kind):
    """fractional coordinates in [0,1)^d, general position unless noted."""
    if kind == "gas":
        f = rng.random((N, d))
    elif kind == "lattice":
        n = max(1, int(np.ceil(N ** (1.0 / d) - 1e-9)))
        ncell = [n] * d
        lk = rng.choice(["sq", "hexrect"]) if d == 2 else rng.choice(["sc", "bcc", "fcc"])
        f = lattice_frac(d, lk, ncell)
        if len(f) > N:
            f = f[rng.permutation(len(f))[:N]]
        f = (f + rng.normal(0, 0.012, f.shape)) % 1.0
    elif kind == "cluster":
        k = int(rng.integers(1, 4))
        centres = rng.random((k, d))
        f = (centres[rng.integers(0, k, N)] + rng.normal(0, 0.06, (N, d))) % 1.0
    elif kind == "droplets":
        # compact droplets with a dilute vapour between them: local density far from the mean density
        nv = max(3, N // 8)
        k = int(rng.integers(2, 5))
        centres = rng.random((k, d))
        f = np.vstack([(centres[rng.integers(0, k, N - nv)] + rng.normal(0, 0.025, (N - nv, d))) % 1.0, rng.random((nv, d))])
        f = f[rng.permutation(N)]
    elif kind == "hardcore":
        f = np.empty((0, d))
        rmin = 0.6 / N ** (1.0 / d)
        tries = 0
        while len(f) < N and tries < 20000:
            c = rng.random(d)
            tries += 1
            if len(f) == 0:
                f = c[None]
                continue
            dd = f - c
            dd -= np.rint(dd)
            if (np.linalg.norm(dd, axis=1) > rmin).all():
                f = np.vstack([f, c])
        while len(f) < N:
            f = np.vstack([f, rng.random(d)])
    else:
        raise ValueError(kind)
    return f


def make_types(rng, N, K):
    """species ids 1..K, every species present (needs N >= K); random composition incl. N_a = 1."""
    K = min(K, N)
    t = np.concatenate([np.arange(1, K + 1), rng.integers(1, K + 1, size=N - K)]) if N > K else np.arange(1, K + 1)
    if N > K and rng.random() < 0.3:
        # strongly skewed composition
        t[K:] = rng.choice(np.arange(1, K + 1), p=_skew(rng, K), size=N - K)
    return t[rng.permutation(N)].astype(int)


def _skew(rng, K):
    p = rng.random(K) ** 3 + 1e-3
    return p / p.sum()


LAYOUTS = ["plain"] * 6 + ["u32types", "i32types", "fortran", "strided", "readonly", "readonly+u32"]


def lay_out(arr, layout, kind):
    """the same values in another in-memory representation (all of them are what real callers hand over: HOOMD frames carry
    uint32 type ids, pandas-3 / memory-mapped arrays are read-only, column slices of wider tables are strided views)."""
    a = np.array(arr)
    if kind == "types" and "u32" in layout:
        a = a.astype(np.uint32)
    if kind == "types" and "i32" in layout:
        a = a.astype(np.int32)
    if layout == "fortran" and a.ndim == 2:
        a = np.asfortranarray(a)
    if layout == "strided":
        if a.ndim == 2:
            big = np.full((a.shape[0], 2 * a.shape[1] + 1), 7.5, dtype=a.dtype)
            big[:, 1::2] = a
            a = big[:, 1::2]
        elif a.ndim == 1:
            big = np.full(2 * a.shape[0] + 1, 3, dtype=a.dtype)
            big[1::2] = a
            a = big[1::2]
    if "readonly" in layout:
        a.setflags(write=False)
    return a


LAYOUT_COUNTS = {}
BIG_COUNTS = {}


def auto_layout(N, types, d):
    """deterministic choice (no RNG consumed), the same for every frame of a trajectory (N, composition, d are constant)"""
    h = ((int(N) * 7 + int(np.sum(types)) * 13 + int(d) * 5) * 2654435761) & 0xFFFFFFFF
    return LAYOUTS[(h >> 9) % len(LAYOUTS)]


def snapshot_from(cell, frac, types, timestep=0, positions=None, layout=None):
    """SingleSnapshot in the repository's conventions for the given cell."""
    layout = layout or auto_layout(len(types), types, cell["d"])
    LAYOUT_COUNTS[layout] = LAYOUT_COUNTS.get(layout, 0) + 1
    SingleSnapshot, _ = records()
    d = cell["d"]
    H = cell["H"]
    pos = cell["origin"] + frac @ H if positions is None else positions
    L = np.diag(H).copy()
    if cell["kind"].startswith("tri"):
        xy, xz, yz = cell["tilt"]
        lo = cell["origin"]
        hi = lo + L
        if d == 3:
            bl = [lo[0] + min(0, xy, xz, xy + xz), lo[1] + min(0, yz), lo[2]]
            bh = [hi[0] + max(0, xy, xz, xy + xz), hi[1] + max(0, yz), hi[2]]
        else:
            bl = [lo[0] + min(0, xy), lo[1]]
            bh = [hi[0] + max(0, xy), hi[1]]
        boxbounds = np.column_stack([bl, bh])
        realbounds = np.column_stack([lo, hi])
    else:
        boxbounds = np.column_stack([cell["origin"], cell["origin"] + L])
        realbounds = None
    Hc = H.copy()
    if layout == "fortran":
        Hc = np.asfortranarray(Hc)        # the natural `cell.T` of a column-vector cell matrix; what scipy.linalg routines hand out
    if "readonly" in layout:
        for a in (L, boxbounds, realbounds, Hc):
            if a is not None:
                a.setflags(write=False)
    return SingleSnapshot(timestep=int(timestep), nparticle=int(len(pos)), particle_type=lay_out(np.array(types, dtype=int), layout, "types"),
                          positions=lay_out(np.array(pos, dtype=float), layout, "positions"), boxlength=L, boxbounds=boxbounds,
                          realbounds=realbounds, hmatrix=Hc)


def snapshots_from(snaps):
    _, Snapshots = records()
    return Snapshots(nsnapshots=len(snaps), snapshots=list(snaps))


UNWRAP_COUNTS = {}
UNIT_COUNTS = {}


def rescale_units(snaps, cell, inf, u):
    """the same trajectory in another unit of length (R10): positions, bounds, lengths and cell vectors multiplied by u; new objects with the
    same in-memory representation.  Returns (Snapshots, cell, inf)."""
    SingleSnapshot, Snapshots = records()
    new = []
    for s in snaps.snapshots:
        pos = np.asarray(s.positions) * u
        if np.asarray(s.positions).flags.f_contiguous and pos.ndim == 2 and not pos.flags.f_contiguous:
            pos = np.asfortranarray(pos)
        if not np.asarray(s.positions).flags.writeable:
            pos.setflags(write=False)
        new.append(SingleSnapshot(timestep=s.timestep, nparticle=s.nparticle, particle_type=s.particle_type, positions=pos,
                                  boxlength=np.asarray(s.boxlength) * u, boxbounds=np.asarray(s.boxbounds) * u,
                                  realbounds=None if s.realbounds is None else np.asarray(s.realbounds) * u, hmatrix=np.asarray(s.hmatrix) * u))
    cell = dict(cell)
    cell["H"] = cell["H"] * u
    cell["origin"] = np.asarray(cell["origin"]) * u
    cell["tilt"] = tuple(t * u for t in cell["tilt"])
    inf = dict(inf)
    if "Hs" in inf:
        inf["Hs"] = [np.asarray(H) * u for H in inf["Hs"]]
    inf["unit_of_length"] = u
    UNIT_COUNTS["trajectories_in_other_units_of_length"] = UNIT_COUNTS.get("trajectories_in_other_units_of_length", 0) + 1
    return Snapshots(nsnapshots=len(new), snapshots=new), cell, inf


def unwrap_in_place(rng, snapshots, Hs, ppp, prob=0.25, maxshift=3):
    """Unwrapped coordinates: with probability `prob`, every particle of every frame is moved by up to +-maxshift whole cell vectors along the
    periodic axes (what an `xu` dump holds after a long run; the reader keeps such coordinates as they are).  The periodic configuration --
    and so every minimum-image observable -- is the same.  Done in place on writeable position arrays (read-only representations are left
    alone); the shifts are the same in every frame so that displacements between frames are unchanged.  Returns True when applied."""
    ppp = np.asarray(ppp)
    if not ppp.any() or rng.random() >= prob:
        return False
    snaps = list(snapshots)
    if not all(s.positions.flags.writeable for s in snaps):
        return False
    n = rng.integers(-maxshift, maxshift + 1, size=snaps[0].positions.shape) * ppp[None, :]
    if not n.any():
        return False
    for s, H in zip(snaps, Hs if isinstance(Hs, (list, tuple)) else [Hs] * len(snaps)):
        s.positions[...] = np.asarray(s.positions) + n @ np.asarray(H, float)
    UNWRAP_COUNTS["snapshots_with_unwrapped_coordinates"] = UNWRAP_COUNTS.get("snapshots_with_unwrapped_coordinates", 0) + len(snaps)
    return True


def random_mask(rng, d, allow_open=True):
    r = rng.random()
    if r < 0.55:
        return np.ones(d, dtype=int)
    if r < 0.85 or not allow_open:
        m = rng.integers(0, 2, size=d)
        if not m.any():
            m[rng.integers(0, d)] = 1
        return m.astype(int)
    return np.zeros(d, dtype=int)


def retilt(rng, cell):
    """same edge lengths and origin, freshly drawn tilt factors (a sheared cell: LAMMPS fix deform xy / xz / yz)"""
    d, L = cell["d"], cell["L"]
    c = dict(cell)
    xy = rng.choice([-1, 1]) * rng.uniform(0.02, 0.5) * L[0]
    xz = yz = 0.0
    H = np.diag(L).astype(float)
    H[1, 0] = xy
    if d == 3:
        xz = rng.choice([-1, 1]) * rng.uniform(0.02, 0.5) * L[0]
        yz = rng.choice([-1, 1]) * rng.uniform(0.02, 0.5) * L[1]
        H[2, 0], H[2, 1] = xz, yz
    c["H"], c["tilt"] = H, (xy, xz, yz)
    return c


def static_system(rng, d=None, N=None, K=1, cellkind=None, poskind=None, frames=1, nmin=2, nmax=60, jitter=0.03, retype=False,
                  vary_tilt=False, layout=None, big=False, vary_box=False):
    """one random multi-frame static system; returns (Snapshots, info).
    vary_tilt: for a triclinic cell and several frames, 40 % of the systems get an own tilt per frame (equal edge lengths, as the
    analyses require); info["Hs"] then lists the cell matrix of every frame."""
    d = d or int(rng.choice([2, 3]))
    cellkind = cellkind or str(rng.choice(["ortho", "ortho", "tri+", "tri-", "tri"]))
    poskind = poskind or str(rng.choice(["gas", "lattice", "cluster", "hardcore"]))
    if N is None:
        N = int(rng.integers(max(nmin, K), nmax + 1))
        if big and N >= nmax - 2:
            # a few systems well beyond the usual size, straddling powers of two (block-wise / chunked evaluation boundaries)
            N = [129, 257, 200, 300, 513][(K + d + N) % (5 if big == "xl" else 4)]
            BIG_COUNTS[N] = BIG_COUNTS.get(N, 0) + 1
    cell = make_cell(rng, d, cellkind)
    f0 = make_frac(rng, d, N, poskind)
    N = len(f0)
    types = make_types(rng, N, K)
    snaps = []
    layout = layout or str(np.random.default_rng([int(f0.shape[0]), int(types.sum()), int(f0[0, 0] * 1e9)]).choice(LAYOUTS))
    shear = bool(vary_tilt and frames > 1 and cellkind.startswith("tri") and cellkind != "tri0" and rng.random() < 0.4)
    cells = [cell] + [retilt(rng, cell) if shear else cell for _ in range(frames - 1)]
    if vary_box and frames > 1 and not shear and int(f0[0, 0] * 1e6) % 3 == 0:
        # constant-pressure run: every frame has its own edge lengths (tilt factors scale along), same fractional coordinates
        cells = [cell]
        for t in range(1, frames):
            c = dict(cell)
            fac = 1.0 + 0.25 * np.sin(1.7 * t + f0[0, 0] * 10.0)
            c["H"], c["L"] = cell["H"] * fac, cell["L"] * fac
            c["tilt"] = tuple(v * fac for v in cell["tilt"])
            cells.append(c)
    for t in range(frames):
        f = (f0 + (rng.normal(0, jitter, f0.shape) if t else 0.0)) % 1.0
        tt = types if (t == 0 or not retype) else types[rng.permutation(N)]   # swap moves: same composition, other ids
        snaps.append(snapshot_from(cells[t], f, tt, timestep=1000 * t, layout=layout))
    info = {"layout": layout, "d": d, "N": N, "K": int(len(np.unique(types))), "cell": cellkind + ("/sheared" if shear else ""), "pos": poskind, "frames": frames,
            "H": cell["H"], "origin": cell["origin"], "Hs": [c["H"] for c in cells]}
    return snapshots_from(snaps), info, cell
