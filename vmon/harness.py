"""Process preparation: scratch cwd, logging off, repo import, reach + FP-event monitors."""
from __future__ import annotations

import importlib
import inspect
import logging
import os
import shutil
import sys
import tempfile
import warnings

from . import REPO

REPO_MODULES = [
    "PyMatterSim.utils.pbc", "PyMatterSim.utils.funcs", "PyMatterSim.utils.wavevector",
    "PyMatterSim.utils.coarse_graining", "PyMatterSim.utils.spherical_harmonics", "PyMatterSim.utils.geometry",
    "PyMatterSim.reader.reader_utils", "PyMatterSim.reader.lammps_reader_helper", "PyMatterSim.reader.dump_reader",
    "PyMatterSim.reader.gsd_reader_helper", "PyMatterSim.reader.simulation_log",
    "PyMatterSim.writer.lammps_writer",
    "PyMatterSim.neighbors.read_neighbors", "PyMatterSim.neighbors.calculate_neighbors",
    "PyMatterSim.neighbors.freud_neighbors",
    "PyMatterSim.static.gr", "PyMatterSim.static.sq", "PyMatterSim.static.boo", "PyMatterSim.static.geometric",
    "PyMatterSim.static.pairentropy", "PyMatterSim.static.hessians", "PyMatterSim.static.shape",
    "PyMatterSim.static.vector", "PyMatterSim.static.nematic",
    "PyMatterSim.dynamic.dynamics", "PyMatterSim.dynamic.time_corr",
]

_state = {"cwd0": None, "tmp": None, "import_errors": {}, "lines": {}, "fp": {}, "fp_sites": {}}


def prepare(pid):
    logging.disable(logging.CRITICAL)
    warnings.simplefilter("ignore")
    _state["cwd0"] = os.getcwd()
    tmp = tempfile.mkdtemp(prefix=f"vmon_{pid}_")
    _state["tmp"] = tmp
    os.chdir(tmp)
    import numpy as np  # noqa: F401  (after the env vars set in vmon/__init__)
    import PyMatterSim
    got = os.path.dirname(os.path.abspath(PyMatterSim.__file__))
    want = os.path.join(REPO, "PyMatterSim")
    if os.path.realpath(got) != os.path.realpath(want):
        raise RuntimeError(f"PyMatterSim imported from {got}, expected {want}")
    start_reach()
    for m in REPO_MODULES:
        try:
            importlib.import_module(m)
        except Exception as e:  # noqa: BLE001
            _state["import_errors"][m] = f"{type(e).__name__}: {e}"
    start_fpe()
    return tmp


def import_errors():
    return dict(_state["import_errors"])


def repo_module(name):
    """import a repository module; failure is reported by the caller as a violation."""
    return importlib.import_module(name)


def cleanup():
    try:
        os.chdir(_state["cwd0"] or "/")
    except OSError:
        os.chdir("/")
    if _state["tmp"]:
        shutil.rmtree(_state["tmp"], ignore_errors=True)


def fresh_dir(tag="c"):
    """a new empty sub-directory of the scratch dir, made the cwd (repo code writes fixed names into cwd)."""
    d = tempfile.mkdtemp(prefix=tag + "_", dir=_state["tmp"])
    os.chdir(d)
    return d


def drop_dir(d):
    os.chdir(_state["tmp"])
    shutil.rmtree(d, ignore_errors=True)


# ---------------------------------------------------------------- reach monitor (sys.monitoring LINE)
_TOOL = 4


def start_reach():
    mon = getattr(sys, "monitoring", None)
    if mon is None:
        return
    prefix = os.path.join(os.path.realpath(REPO), "PyMatterSim") + os.sep
    lines = _state["lines"]

    def on_line(code, lineno):
        fn = code.co_filename
        if fn.startswith(prefix) or os.path.realpath(fn).startswith(prefix):
            lines.setdefault(os.path.relpath(os.path.realpath(fn), os.path.realpath(REPO)), set()).add(lineno)
        return mon.DISABLE

    try:
        mon.use_tool_id(_TOOL, "vmon-reach")
    except ValueError:
        return
    mon.register_callback(_TOOL, mon.events.LINE, on_line)
    mon.set_events(_TOOL, mon.events.LINE)


REACH_DETAIL = {}      # anchor -> line offsets (relative to the def line) hit in this process / executable at all


def reach_report(anchors):
    """anchors: list of 'module:qualname'. returns ({name: 'hit/total'}, {name: bool})."""
    rep, hit = {}, {}
    for a in anchors:
        modname, qual = a.split(":")
        try:
            obj = importlib.import_module(modname)
            for part in qual.split("."):
                obj = getattr(obj, part)
            obj = inspect.unwrap(obj)
            code = obj.__code__
            fn = os.path.relpath(os.path.realpath(code.co_filename), os.path.realpath(REPO))
            body = _code_lines(code)
            got = _state["lines"].get(fn, set()) & body
            # the 'def' line executes at import; do not count it
            body.discard(code.co_firstlineno)
            got.discard(code.co_firstlineno)
            rep[a] = f"{len(got)}/{len(body)}"
            hit[a] = len(got) > 0
            REACH_DETAIL[a] = {"hit": sorted(int(l - code.co_firstlineno) for l in got), "body": sorted(int(l - code.co_firstlineno) for l in body)}
        except Exception as e:  # noqa: BLE001
            rep[a] = f"unresolved ({type(e).__name__})"
            hit[a] = False
    return rep, hit


def _code_lines(code):
    out = {ln for (_s, _e, ln) in code.co_lines() if ln is not None}
    for c in code.co_consts:
        if hasattr(c, "co_lines"):
            out |= _code_lines(c)
    return out


# ---------------------------------------------------------------- floating-point event recorder
def start_fpe():
    import numpy as np
    fp = _state["fp"]
    sites = _state["fp_sites"]
    prefix = os.path.join(os.path.realpath(REPO), "PyMatterSim") + os.sep

    def handler(kind, flag):
        fp[kind] = fp.get(kind, 0) + 1
        if fp[kind] <= 40:
            f = sys._getframe(1)
            while f is not None:
                fn = f.f_code.co_filename
                if fn.startswith(prefix):
                    s = f"{kind}@{os.path.basename(fn)}:{f.f_code.co_name}"
                    sites[s] = sites.get(s, 0) + 1
                    break
                f = f.f_back

    np.seterrcall(handler)
    np.seterr(all="call", under="ignore")


def fp_report():
    return {"events": dict(_state["fp"]), "repo_sites_first40": dict(_state["fp_sites"])}
