#!/bin/bash
# tools/sweep.sh <tier> "<seeds>" [parallel jobs] [props...] : every check, each seed, from a fresh process; evidence / replays go to a scratch
# directory (nothing under evidence/ is touched). One line per run: "<Cxx> seed=<s> tier=<t> rc=<rc> wall=<s>"; non-zero runs keep their output.
TIER=${1:-quick}; SEEDS=${2:-"1 2 3 7 12345"}; J=${3:-4}; shift 3 2>/dev/null
PROPS=${@:-"C01 C02 C03 C04 C05 C06 C07 C08 C09 C10 C11 C12 C13 C14 C15 C16 C17 C18 C19 C20"}
HERE="$(cd "$(dirname "$0")/.." && pwd)"
OUT=${SWEEP_OUT:-$(mktemp -d /tmp/sweep_XXXX)}
mkdir -p "$OUT"
run_one() { p=$1; s=$2; t0=$(date +%s)
  VERIF_SEED=$s VERIF_EVIDENCE_DIR="$OUT/ev_$s" VERIF_REPLAY_DIR="$OUT/rp_$s" "$HERE/check" $p --tier $TIER > "$OUT/$p.$s.log" 2>&1; rc=$?
  echo "$p seed=$s tier=$TIER rc=$rc wall=$(( $(date +%s) - t0 ))"
  [ $rc -eq 0 ] && rm -f "$OUT/$p.$s.log"; }
export -f run_one; export TIER HERE OUT
for s in $SEEDS; do for p in $PROPS; do echo "$p $s"; done; done | xargs -P $J -n 2 bash -c 'run_one $0 $1'
echo "SWEEP DONE out=$OUT"
