#!/bin/bash
# tools/seed_eval_all.sh <Cxx> [check ids...] : evaluate /tmp/seed_<Cxx>/SEED/{1,2,3}: demo on clean/mutated copies + quick checks,
# then the repository's whole test-suite on the mutated copy. Results -> /tmp/seed_<Cxx>/SEED/k/eval.txt
P=$1; shift; CHECKS="${@:-$P}"
for k in 1 2 3; do
  SD=${SEEDROOT:-/tmp/seed_}$P/SEED/$k
  [ -f $SD/patch.diff ] || continue
  ( /verif/tools/eval_seed.sh $SD $CHECKS > $SD/eval.txt 2>&1; /verif/tools/seed_tests.sh $SD/patch.diff >> $SD/eval.txt 2>&1 ) &
done
wait
for k in 1 2 3; do echo "== $P-$k"; grep -E "^RESULT|^TESTS|^demo" ${SEEDROOT:-/tmp/seed_}$P/SEED/$k/eval.txt; done
