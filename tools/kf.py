#!/usr/bin/env python3
"""kf.py fixed|known <property> <key> <commit-or-dash> <what>  — maintain known_findings.json (never used at check run time)."""
import json, sys, os
p = os.path.join(os.path.dirname(os.path.dirname(os.path.abspath(__file__))), "known_findings.json")
d = json.load(open(p))
status, prop, key, commit, what = sys.argv[1:6]
e = {"property": prop, "key": key, "status": status, "what": what}
if status == "fixed":
    e["commit"] = commit
    e["line"] = f"fixed: property={prop} {commit} {what}"
d["findings"] = [x for x in d["findings"] if not (x["property"] == prop and x["key"] == key)] + [e]
json.dump(d, open(p, "w"), indent=1)
