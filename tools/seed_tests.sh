#!/bin/bash
# tools/seed_tests.sh <patch.diff>  — run the repository's own test-suite on a scratch copy of /repo with the patch applied
# (one pytest process per tests/<dir>, each in its own scratch cwd because the tests write fixed file names into the cwd)
# and report whether all 75 baseline-stable tests (/root/.vp/BASELINE.json stable_pass) still pass.
P=""; [ -n "$1" ] && P="$(readlink -f "$1")"   # no argument: the unchanged tree (baseline with the fix commits)
T=$(mktemp -d /tmp/seedtests_XXXX)
trap 'rm -rf "$T"' EXIT
mkdir -p "$T/src"
cp -r /repo/PyMatterSim /repo/tests "$T/src/"
find "$T/src" -name __pycache__ -prune -exec rm -rf {} +
[ -z "$P" ] || ( cd "$T/src" && patch -p1 -s --no-backup-if-mismatch < "$P" ) || { echo "TESTS PATCH-FAILED"; exit 2; }
for d in dynamics neighbors reader static utils writer; do
  mkdir -p "$T/run_$d"; ln -s "$T/src/PyMatterSim" "$T/run_$d/PyMatterSim"; ln -s "$T/src/tests" "$T/run_$d/tests"
  ( cd "$T/run_$d" && PYTHONDONTWRITEBYTECODE=1 timeout 3000 /venv/bin/python -m pytest -q -p no:cacheprovider --timeout=900 \
      --continue-on-collection-errors "tests/$d" --junitxml="$T/$d.xml" >"$T/$d.log" 2>&1 ) &
done
wait
/venv/bin/python - "$T" <<'PY'
import sys, json, glob, xml.etree.ElementTree as ET
T = sys.argv[1]
base = set(json.load(open('/root/.vp/BASELINE.json'))['stable_pass'])
passed = set()
for f in glob.glob(T + '/*.xml'):
    for tc in ET.parse(f).getroot().iter('testcase'):
        bad = any(c.tag in ('failure', 'error', 'skipped') for c in tc)
        name = f"{tc.get('classname')}::{tc.get('name')}"
        if not bad:
            passed.add(name)
missing = sorted(base - passed)
print(f"TESTS baseline_stable={len(base)} passing_now={len(base & passed)} newly_failing={missing}")
sys.exit(0 if not missing else 1)
PY
