#!/usr/bin/env python3
"""tools/archive_seed2.py <Cxx> <k> <note> [extra check ids...] -- archive a second-round sub-agent change /tmp/seed2_<Cxx>/SEED/<k>/
(evaluated before by tools/seed_eval_all.sh with SEEDROOT=/tmp/seed2_: eval.txt holds the FIRST verdict of the checks and the repository
test-suite result) as /verif/seeded/<Cxx>-<k+3>/.  The quick checks are run again now (after any strengthening); when the first verdict
was a miss, <note> says what was strengthened."""
import json, os, re, shutil, subprocess, sys
pid, k, note = sys.argv[1], sys.argv[2], sys.argv[3]
extra = sys.argv[4:]
RND = int(os.environ.get("ROUND", "2"))
sd = f"/tmp/seed{RND}_{pid}/SEED/{k}"
ev = open(os.path.join(sd, "eval.txt")).read()
first = [l for l in ev.splitlines() if l.startswith("RESULT")][-1]
tests = [l for l in ev.splitlines() if l.startswith("TESTS")][-1]
if not ("demo_clean=0" in first and "demo_mut=1" in first and "newly_failing=[]" in tests):
    print(pid, k, "NOT CONFIRMED:", first, tests); sys.exit(1)
out = subprocess.run(["/verif/tools/eval_seed.sh", sd, pid] + extra, capture_output=True, text=True).stdout
now = [l for l in out.splitlines() if l.startswith("RESULT")][-1]
dst = f"/verif/seeded/{pid}-{int(k) + 3 * (RND - 1)}"
os.makedirs(dst, exist_ok=True)
for f in ("patch.diff", "demo.py"):
    shutil.copy(os.path.join(sd, f), os.path.join(dst, f))
try:
    meta = json.load(open(os.path.join(sd, "meta.json")))
except Exception:
    meta = {"property": pid}
fc = dict(re.findall(r"(C\d\d):rc=(\d)", first))
nc = dict(re.findall(r"(C\d\d):rc=(\d)", now))
if os.environ.get("FIRST_MISSED_AT"):
    # the check was strengthened after reading the sub-agent's report but before eval.txt was written: the first verdict is the one of the
    # check as it was when the change was written (older commit of /verif, evaluated with a scratch worktree of that commit)
    meta["strengthened"] = (f"first verdict (checks as of /verif commit {os.environ['FIRST_MISSED_AT']}, when the change was written): {pid}:rc=0[]; missed at first; {note}")
    first = first + f"  [superseded: {pid}:rc=0 with /verif commit {os.environ['FIRST_MISSED_AT']}]"
elif fc.get(pid) != "1":
    meta["strengthened"] = f"first verdict: {first.split('demo_mut=1')[1].strip()}; missed at first; {note}"
meta["round"] = RND
meta["confirmed_by_me"] = {
    "demo_exit_on_unchanged_tree": 0, "demo_exit_with_change": 1, "repository_tests_with_change": tests,
    "how": "tools/seed_eval_all.sh (SEEDROOT=/tmp/seed<round>_): scratch copies of /repo/PyMatterSim outside /repo and /verif, patch applied with patch -p1, "
           "demo run in both; ./check <id> --tier quick with VERIF_REPO=<changed copy>; tools/seed_tests.sh: the repository's whole test-suite on a "
           "changed copy (one pytest process per tests/<dir>), all 75 baseline-stable tests must still pass; tools/archive_seed2.py re-ran the quick checks",
    "checks": {c: ("caught (exit 1)" if rc == "1" else f"NOT caught (exit {rc})") for c, rc in nc.items()},
    "raw": now, "raw_first": first}
json.dump(meta, open(os.path.join(dst, "meta.json"), "w"), indent=1)
print(pid, int(k) + 3 * (RND - 1), "archived;", meta["confirmed_by_me"]["checks"], "| first:", fc)
