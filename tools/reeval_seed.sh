#!/bin/bash
# tools/reeval_seed.sh <Cxx> <k> "<note what was strengthened>" <check ids...> : after strengthening a check, re-run demo + quick checks for one
# seed, keep the earlier TESTS line, record the first (missed) verdict in meta.json["strengthened"].
P=$1; K=$2; NOTE=$3; shift 3
SD=${SEEDROOT:-/tmp/seed_}$P/SEED/$K
OLD=$(grep "^RESULT" $SD/eval.txt | tail -1)
TESTS=$(grep "^TESTS" $SD/eval.txt | tail -1)
/verif/tools/eval_seed.sh $SD "$@" > $SD/eval.new 2>&1
NEW=$(grep "^RESULT" $SD/eval.new | tail -1)
{ cat $SD/eval.new; echo "$TESTS"; } > $SD/eval.txt
/venv/bin/python - "$SD" "$OLD" "$NOTE" <<'PY'
import json, sys
sd, old, note = sys.argv[1:4]
p = sd + "/meta.json"
try: m = json.load(open(p))
except Exception: m = {}
m["strengthened"] = f"first verdict: {old.split('demo_mut=1')[-1].strip()}; {note}"
json.dump(m, open(p, "w"), indent=1)
PY
echo "$NEW"
