#!/bin/bash
# tools/eval_seed.sh <seed_dir containing patch.diff demo.py> <check ids...>
# Confirms the seeded change (demo passes on the unchanged tree, fails with the change) on scratch copies
# outside /repo and /verif, then runs the given quick checks against the changed copy (VERIF_REPO).
SD="$1"; shift
T=$(mktemp -d /tmp/evalseed_XXXX)
trap 'rm -rf "$T"' EXIT
mkdir -p "$T/clean" "$T/mut"
for w in clean mut; do cp -r /repo/PyMatterSim "$T/$w/"; ln -s /repo/tests "$T/$w/tests"; find "$T/$w" -name __pycache__ -prune -exec rm -rf {} +; done
( cd "$T/mut" && patch -p1 -s --no-backup-if-mismatch < "$SD/patch.diff" ) || { echo "RESULT $SD PATCH-FAILED"; exit 0; }
( cd "$T/clean" && PYTHONPATH="$T/clean" timeout 900 /venv/bin/python "$SD/demo.py" >"$T/clean.out" 2>&1 ); c=$?
( cd "$T/mut" && PYTHONPATH="$T/mut" timeout 900 /venv/bin/python "$SD/demo.py" >"$T/mut.out" 2>&1 ); m=$?
echo "demo: clean=$c mutated=$m"
res=""
for pid in "$@"; do
  out=$(VERIF_REPO="$T/mut" VERIF_EVIDENCE_DIR="$T/ev" VERIF_REPLAY_DIR="$T/rp" /verif/check $pid --tier ${TIER:-quick} 2>&1); rc=$?
  keys=$(echo "$out" | grep "violation key=" | sed 's/.*key=\([^:]*\):.*/\1/' | sort -u | head -4 | tr '\n' ' ')
  res="$res $pid:rc=$rc[$keys]"
done
echo "RESULT $SD demo_clean=$c demo_mut=$m $res"
