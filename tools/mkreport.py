#!/usr/bin/env python3
"""Regenerate the 'which check catches which change' tables of DESIGN.md (between the AUTO markers) from
seeded/*/meta.json and selftest/last_results*.json."""
import glob, json, os, re
HERE = os.path.dirname(os.path.dirname(os.path.abspath(__file__)))
out = []
out.append("### 7.1 Changes seeded by independent sub-agents (from the property text alone)\n")
out.append("Each was confirmed by me on scratch copies: demonstration exits 0 on the unchanged tree and 1 with the change; all 75 "
           "baseline-stable repository tests still pass with the change (entries archived in earlier rounds record the sub-agent's test runs); then the quick check was run with `VERIF_REPO=<changed copy>`.\n")
out.append("| seed | what the change does / what it needs to manifest | quick check verdict |")
out.append("|---|---|---|")
for d in sorted(glob.glob(os.path.join(HERE, "seeded", "*"))):
    name = os.path.basename(d)
    try:
        m = json.load(open(os.path.join(d, "meta.json")))
    except Exception:
        continue
    summ = (m.get("summary") or "").replace("\n", " ").replace("|", "/")
    need = (m.get("needs_to_manifest") or "").replace("\n", " ").replace("|", "/")
    cb = m.get("confirmed_by_me", {})
    ver = "; ".join(f"{c}: {v}" for c, v in (cb.get("checks") or {}).items())
    if m.get("strengthened"):
        ver += " — " + m["strengthened"].replace("|", "/")
    out.append(f"| {name} | {summ[:260]}{'…' if len(summ) > 260 else ''} **Needs:** {need[:220]}{'…' if len(need) > 220 else ''} | {ver} |")
out.append("")
out.append("### 7.2 Self-test mutants (deliberate breaks, `selftest/mutants.py`)\n")
res = {}
for f in sorted(glob.glob(os.path.join(HERE, "selftest", "last_results*.json")), key=os.path.getmtime):
    for r in json.load(open(f)):
        res[(r[0], r[1])] = r
by = {}
for (pid, name), r in res.items():
    by.setdefault(pid, []).append(r)
out.append("| property | mutants | caught by the quick check | not caught |")
out.append("|---|---|---|---|")
tot = caught = 0
for pid in sorted(by):
    rs = by[pid]
    c = [r for r in rs if r[2] == "CAUGHT"]
    n = [f"{r[1]} ({r[2]})" for r in rs if r[2] != "CAUGHT"]
    tot += len(rs); caught += len(c)
    out.append(f"| {pid} | {len(rs)} | {len(c)} | {', '.join(n) or '—'} |")
out.append(f"| all | {tot} | {caught} | |")
out.append("")
block = "\n".join(out)
p = os.path.join(HERE, "DESIGN.md")
s = open(p).read()
a, b = "<!-- AUTO:REPORT:BEGIN -->", "<!-- AUTO:REPORT:END -->"
if a not in s:
    s = s.rstrip() + f"\n\n## 7. Which checks catch which changes\n\n{a}\n{b}\n"
s = s[:s.index(a) + len(a)] + "\n" + block + "\n" + s[s.index(b):]
open(p, "w").write(s)
print("report written:", len(glob.glob(os.path.join(HERE, 'seeded', '*'))), "seeds,", tot, "mutants")
