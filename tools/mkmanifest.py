#!/usr/bin/env python3
"""Regenerate MANIFEST.json from vmon/props/*.py (SPEC['manifest']) — keeps it valid at all times."""
import importlib, json, os, sys
HERE = os.path.dirname(os.path.dirname(os.path.abspath(__file__)))
sys.path.insert(0, HERE)
os.environ.setdefault("VERIF_REPO", "/repo")
props = [json.loads(l) for l in open(os.path.join(HERE, "properties.jsonl"))]
TECH = {
    "C02": "runtime monitoring: post-condition oracle computed from input and output alone (lattice / half-cell / idempotence / shortest image), history monitor on in-place deformed cells, in-situ contract on every call site during all other workloads and the repository's tests",
    "C07": "runtime monitoring: oracle-free relational (symmetry-group) monitors on the repository's sample trajectories and generated systems, transformations also applied in place on the caller's objects",
    "C08": "runtime monitoring: three independent special-function oracles at interpolation nodes + measured band-limit structure (Lebesgue-constant bound for all angles), history monitors on returned tables",
    "C12": "runtime monitoring: symbolic-derivative oracle (sympy -> mpmath, 40 digits) on generated arguments, call families sharing parameters, measured polynomial structure",
    "C18": "runtime monitoring: state monitors (bit-exact digests of every reachable input array around every call), repeat / same-object / fresh-interpreter-replay / in-place-update / layout-invariance relations over random programs of ~50 entry points, files parsed at their written precision",
}
DEFAULT_TECH = ("runtime monitoring: independent reference-model + relational monitors on generated workloads (hostile in-memory representations, "
                "systems far beyond the usual size), history monitors (prior call with one argument changed, one object asked again, caller-owned "
                "arrays updated in place, file rewritten under the same name), in-situ contracts on shared helpers")
checks, na = [], []
for p in props:
    pid = p["id"]
    path = os.path.join(HERE, "vmon", "props", pid + ".py")
    if not os.path.exists(path):
        na.append({"property_id": pid, "reason": "monitor not built yet in this round (planned: DESIGN.md section 3)"})
        continue
    spec = importlib.import_module(f"vmon.props.{pid}").SPEC
    m = spec.get("manifest", {})
    checks.append({
        "property_id": pid,
        "quick_cmd": f"./check {pid} --tier quick",
        "thorough_cmd": f"./check {pid} --tier thorough",
        "evidence_file": f"/verif/evidence/{pid}.json",
        "replay_cmd_template": f"./check {pid} --replay {{path}}",
        "engine": "vmon",
        "level_claimed": {
            "category": "exploration",
            "text": m.get("text", "Runtime monitoring: the real functions are executed on generated workloads while reference-model, relational and in-situ contract monitors compare every observable the property names; held on the executions observed, not proved."),
            "design_ref": f"DESIGN.md section 3, {pid}",
        },
        "level_note": m.get("note", "Trusted: numpy/scipy/mpmath/sympy as used by the reference models; float64 tolerances of DESIGN.md R4; generators cover only the classes listed in the evidence file."),
        "technique": m.get("technique", TECH.get(pid, DEFAULT_TECH)),
    })
man = {
    "version": 1,
    "setup_cmd": "sh ./setup.sh",
    "hooks": {
        "guard": "PYMATTERSIM_VERIF",
        "enable": "none needed: every monitor is interposed from the harness at the public boundary (vmon/interpose.py); the guard variable is read by the harness only",
        "baseline_off_cmd": "cd /repo && /venv/bin/python -m pytest -ra -q -p no:cacheprovider --timeout=900 --continue-on-collection-errors",
        "source_commits": [],
        "add_only": True,
    },
    "engines": [{"name": "vmon", "path": "/verif/vmon", "serves_properties": [c["property_id"] for c in checks],
                 "kind_free_text": "Python runtime-monitoring harness: workload generators, independent reference models, metamorphic relations, in-situ contracts (deal) interposed on the repository's shared helpers, purity digests, sys.monitoring line-reach, numpy FP-event recorder"}],
    "checks": checks,
    "not_applicable": na,
    "notes": "exit 0 held / 1 VIOLATION / 2 INCONCLUSIVE (deciding monitor below its floor, anchored code not reached, shard timeout). Known findings: /verif/known_findings.json.",
}
json.dump(man, open(os.path.join(HERE, "MANIFEST.json"), "w"), indent=1)
try:
    import jsonschema
    jsonschema.validate(man, json.load(open(os.path.join(HERE, "schemas", "MANIFEST.schema.json"))))
    print("MANIFEST valid:", len(checks), "checks,", len(na), "not_applicable")
except ImportError:
    print("MANIFEST written (jsonschema unavailable)")
