#!/usr/bin/env python3
"""tools/keep_seed.py <seed_dir> <name e.g. C04-1> <check ids...>: confirm + archive a seeded change under /verif/seeded/<name>/"""
import json, os, shutil, subprocess, sys
sd, name, checks = sys.argv[1], sys.argv[2], sys.argv[3:]
out = subprocess.run(["/verif/tools/eval_seed.sh", sd] + checks, capture_output=True, text=True).stdout
line = [l for l in out.splitlines() if l.startswith("RESULT")][-1]
print(line)
ok = "demo_clean=0" in line and "demo_mut=1" in line
dst = os.path.join("/verif/seeded", name)
os.makedirs(dst, exist_ok=True)
for f in ("patch.diff", "demo.py"):
    shutil.copy(os.path.join(sd, f), os.path.join(dst, f))
meta = {}
try:
    meta = json.load(open(os.path.join(sd, "meta.json")))
except Exception:
    pass
meta["confirmed_by_me"] = {"demo_exit_on_unchanged_tree": 0 if "demo_clean=0" in line else "nonzero",
                           "demo_exit_with_change": 1 if "demo_mut=1" in line else "other",
                           "how": "tools/eval_seed.sh: scratch copies of /repo/PyMatterSim outside /repo and /verif, patch applied with patch -p1, demo run in both, then ./check <id> --tier quick with VERIF_REPO=<changed copy>",
                           "checks": {c: ("caught (exit 1)" if f"{c}:rc=1" in line else "NOT caught: " + line.split(c + ":")[1].split("]")[0] + "]") for c in checks},
                           "raw": line}
json.dump(meta, open(os.path.join(dst, "meta.json"), "w"), indent=1)
sys.exit(0 if ok else 1)
