#!/usr/bin/env python3
"""tools/archive_seed.py <Cxx> [k ...] — archive evaluated sub-agent changes /tmp/seed_<Cxx>/SEED/<k>/ (patch.diff, demo.py, meta.json,
eval.txt written by tools/seed_eval_all.sh) as /verif/seeded/<Cxx>-<k>/.  Kept only when confirmed: demo exits 0 on the unchanged tree,
1 with the change, and all 75 baseline-stable repository tests still pass with the change."""
import json, os, re, shutil, sys
pid = sys.argv[1]
ks = sys.argv[2:] or ["1", "2", "3"]
for k in ks:
    sd = f"{os.environ.get('SEEDROOT', '/tmp/seed_')}{pid}/SEED/{k}"
    ev = open(os.path.join(sd, "eval.txt")).read()
    res = [l for l in ev.splitlines() if l.startswith("RESULT")]
    tst = [l for l in ev.splitlines() if l.startswith("TESTS")]
    if not res or not tst:
        print(pid, k, "not evaluated"); continue
    line, tl = res[-1], tst[-1]
    ok = "demo_clean=0" in line and "demo_mut=1" in line and "newly_failing=[]" in tl
    if not ok:
        print(pid, k, "NOT CONFIRMED:", line, tl); continue
    dst = f"/verif/seeded/{pid}-{int(k) + int(os.environ.get('SEEDOFFSET', '0'))}"
    os.makedirs(dst, exist_ok=True)
    for f in ("patch.diff", "demo.py"):
        shutil.copy(os.path.join(sd, f), os.path.join(dst, f))
    try:
        meta = json.load(open(os.path.join(sd, "meta.json")))
    except Exception:
        meta = {"property": pid}
    checks = dict(re.findall(r"(C\d\d):rc=(\d)", line))
    meta["confirmed_by_me"] = {
        "demo_exit_on_unchanged_tree": 0, "demo_exit_with_change": 1, "repository_tests_with_change": tl,
        "how": "tools/seed_eval_all.sh: scratch copies of /repo/PyMatterSim outside /repo and /verif, patch applied with patch -p1, demo run in both; "
               "./check <id> --tier quick with VERIF_REPO=<changed copy>; tools/seed_tests.sh: the repository's whole test-suite on a changed copy "
               "(one pytest process per tests/<dir>), all 75 baseline-stable tests must still pass",
        "checks": {c: ("caught (exit 1)" if rc == "1" else f"NOT caught (exit {rc})") for c, rc in checks.items()},
        "raw": line}
    json.dump(meta, open(os.path.join(dst, "meta.json"), "w"), indent=1)
    print(pid, k, "archived;", meta["confirmed_by_me"]["checks"])
