#!/bin/sh
# Offline install of the contract / schema libraries next to the repository's interpreter.
# Idempotent; every check calls it when /verif/.deps is missing.
set -e
HERE="$(cd "$(dirname "$0")" && pwd)"
DEPS="$HERE/.deps"
if [ -f "$DEPS/.ok" ]; then exit 0; fi
mkdir -p "$DEPS"
PIP_NO_INDEX=1 /venv/bin/python -m pip install --quiet --no-index --find-links /opt/veriftools/wheels \
    --target "$DEPS" --upgrade deal jsonschema >/dev/null 2>"$DEPS/pip.err" || {
  echo "setup.sh: offline pip install failed (monitors fall back to built-in wrappers):" >&2
  cat "$DEPS/pip.err" >&2
}
PYTHONPATH="$DEPS" /venv/bin/python -c "import deal, jsonschema" && touch "$DEPS/.ok"
exit 0
