#!/usr/bin/env python3
"""Systematic sensitivity campaign: every anchored mechanism function of a property is mutated mechanically, one syntactic change
at a time (arithmetic / comparison / boolean operator swaps, integer and float constants, dropped conj / abs / unary minus, swapped
numpy twins such as sin/cos, floor/ceil, min/max, argmin/argmax, `+=` <-> `-=`, dropped statements), each mutant is applied to a scratch
copy of /repo/PyMatterSim (outside /repo and /verif, removed afterwards) and the property's QUICK check is run on it with VERIF_REPO=<copy>
and VERIF_FAILFAST=1.  Expected: exit 1.  Survivors are written out for triage (equivalent mutant, or a blind spot of the monitors).

Unlike selftest/mutants.py (hand-written, realistic breaks that pass the repository's tests) these mutants are not filtered through the
repository's test-suite: the point is coverage of the *monitors* -- which syntactic positions of the anchored code can change without any
monitor noticing.

usage: selftest/automutate.py <Cxx ...> [-j N] [--max N per property] [--list] [--seed S] [--out FILE]
"""
from __future__ import annotations

import ast
import hashlib
import importlib
import json
import os
import random
import shutil
import subprocess
import sys
import tempfile
import time
from concurrent.futures import ThreadPoolExecutor

HERE = os.path.dirname(os.path.abspath(__file__))
VERIF = os.path.dirname(HERE)
REPO = "/repo"
sys.path.insert(0, VERIF)

BIN = {ast.Add: ("+", "-"), ast.Sub: ("-", "+"), ast.Mult: ("*", "/"), ast.Div: ("/", "*"), ast.FloorDiv: ("//", "/"),
       ast.BitAnd: ("&", "|"), ast.BitOr: ("|", "&"), ast.Pow: ("**", "*"), ast.Mod: ("%", "//")}
CMP = {ast.Lt: ("<", "<="), ast.LtE: ("<=", "<"), ast.Gt: (">", ">="), ast.GtE: (">=", ">"), ast.Eq: ("==", "!="), ast.NotEq: ("!=", "==")}
TWINS = {"sin": "cos", "cos": "sin", "floor": "ceil", "ceil": "floor", "rint": "floor", "min": "max", "max": "min",
         "argmin": "argmax", "argmax": "argmin", "sum": "mean", "mean": "sum", "real": "imag", "arccos": "arcsin",
         "arctan2": "arctan2_swapped", "sqrt": "abs", "zeros": "ones", "zeros_like": "ones_like", "argsort": "argsort_rev",
         "minimum": "maximum", "maximum": "minimum", "any": "all", "all": "any", "exp": "expm1", "cumsum": "cumprod",
         "conj": "DROP", "conjugate": "DROP", "abs": "DROP", "absolute": "DROP"}
SKIP_CALLS = ("logger", "logging", "print", "warnings")


def locate(anchor):
    mod, qual = anchor.split(":")
    path = os.path.join(REPO, *mod.split(".")) + ".py"
    src = open(path).read()
    tree = ast.parse(src)
    node = tree
    for part in qual.split("."):
        node = next(n for n in ast.walk(node) if isinstance(n, (ast.FunctionDef, ast.ClassDef)) and n.name == part)
    return path, src, node


def mutants_of(anchor):
    path, src, fn = locate(anchor)
    text_lines = src.split("\n")
    starts = [0]
    for l in text_lines[:-1]:
        starts.append(starts[-1] + len(l) + 1)

    def off(lineno, col):   # col is a UTF-8 byte offset
        line = text_lines[lineno - 1]
        return starts[lineno - 1] + len(line.encode()[:col].decode())

    def span(n):
        return off(n.lineno, n.col_offset), off(n.end_lineno, n.end_col_offset)

    skip_ranges = []
    for n in ast.walk(fn):
        if isinstance(n, ast.Expr) and isinstance(n.value, ast.Constant) and isinstance(n.value.value, str):
            skip_ranges.append(span(n))                     # docstrings
        if isinstance(n, (ast.Raise, ast.Assert, ast.JoinedStr)):
            skip_ranges.append(span(n))
        if isinstance(n, ast.Call):
            f = n.func
            base = f
            while isinstance(base, ast.Attribute):
                base = base.value
            if isinstance(base, ast.Name) and base.id in SKIP_CALLS:
                skip_ranges.append(span(n))
        if isinstance(n, ast.FunctionDef):
            for d in n.args.defaults + n.args.kw_defaults:
                if d is not None:
                    skip_ranges.append(span(d))
            if n.returns is not None:
                skip_ranges.append(span(n.returns))
        if isinstance(n, ast.arg) and n.annotation is not None:
            skip_ranges.append(span(n.annotation))
        if isinstance(n, ast.AnnAssign):
            skip_ranges.append(span(n.annotation))
        if isinstance(n, ast.If):   # error branches: an `if` whose body only logs / raises / returns None
            body = n.body
            if all(isinstance(b, (ast.Raise, ast.Expr, ast.Return, ast.Assign, ast.AugAssign)) for b in body) and any(isinstance(b, ast.Raise) for b in body):
                skip_ranges.append(span(n))

    def skipped(a, b):
        return any(a >= s and b <= e for s, e in skip_ranges)

    out = []

    def add(kind, a, b, new, lineno):
        if skipped(a, b) or src[a:b] == new:
            return
        out.append({"anchor": anchor, "file": os.path.relpath(path, REPO), "kind": kind, "line": lineno, "fn_line": lineno - fn.lineno,
                    "a": a, "b": b, "old": src[a:b], "new": new})

    for n in ast.walk(fn):
        if isinstance(n, ast.BinOp) and type(n.op) in BIN:
            old, new = BIN[type(n.op)]
            a, b = span(n.left)[1], span(n.right)[0]
            mid = src[a:b]
            i = mid.find(old)
            if i >= 0:
                add(f"binop{old}->{new}", a + i, a + i + len(old), new, n.lineno)
        elif isinstance(n, ast.AugAssign) and type(n.op) in BIN:
            old, new = BIN[type(n.op)]
            a, b = span(n.target)[1], span(n.value)[0]
            mid = src[a:b]
            i = mid.find(old + "=")
            if i >= 0:
                add(f"aug{old}=->{new}=", a + i, a + i + len(old), new, n.lineno)
            sa, sb = span(n)
            add("drop-statement", sa, sb, "pass", n.lineno)
        elif isinstance(n, ast.Compare):
            left = n.left
            for op, right in zip(n.ops, n.comparators):
                if type(op) in CMP:
                    old, new = CMP[type(op)]
                    a, b = span(left)[1], span(right)[0]
                    i = src[a:b].find(old)
                    if i >= 0:
                        add(f"cmp{old}->{new}", a + i, a + i + len(old), new, n.lineno)
                left = right
        elif isinstance(n, ast.BoolOp):
            old, new = ("and", "or") if isinstance(n.op, ast.And) else ("or", "and")
            a, b = span(n.values[0])[1], span(n.values[1])[0]
            i = src[a:b].find(old)
            if i >= 0:
                add(f"bool {old}->{new}", a + i, a + i + len(old), new, n.lineno)
        elif isinstance(n, ast.UnaryOp) and isinstance(n.op, (ast.USub, ast.Not)):
            a, b = span(n)
            oa, ob = span(n.operand)
            add("drop-unary", a, b, src[oa:ob], n.lineno)
        elif isinstance(n, ast.Constant) and not isinstance(n.value, (str, bytes, bool, type(None), type(...), complex)):
            a, b = span(n)
            v = n.value
            if isinstance(v, int):
                add("int+1", a, b, str(v + 1), n.lineno)
                if v > 0:
                    add("int-1", a, b, str(v - 1), n.lineno)
            elif isinstance(v, float):
                add("float*1.01", a, b, repr(v * 1.01) if v else "0.01", n.lineno)
        elif isinstance(n, ast.Constant) and isinstance(n.value, bool):
            a, b = span(n)
            add("bool-flip", a, b, str(not n.value), n.lineno)
        elif isinstance(n, ast.Attribute) and n.attr in TWINS:
            new = TWINS[n.attr]
            if new in ("DROP", "arctan2_swapped", "argsort_rev"):
                continue
            a, b = span(n)
            add(f"{n.attr}->{new}", b - len(n.attr), b, new, n.lineno)
        elif isinstance(n, ast.Call):
            f = n.func
            name = f.attr if isinstance(f, ast.Attribute) else (f.id if isinstance(f, ast.Name) else None)
            if name in TWINS and TWINS[name] == "DROP" and len(n.args) == 1 and not n.keywords:
                a, b = span(n)
                aa, ab = span(n.args[0])
                add(f"drop-{name}", a, b, "(" + src[aa:ab] + ")", n.lineno)
            elif name in TWINS and TWINS[name] == "DROP" and isinstance(f, ast.Attribute) and not n.args:
                a, b = span(n)               # x.conj() -> x
                va, vb = span(f.value)
                add(f"drop-.{name}()", a, b, src[va:vb], n.lineno)
            elif name == "arctan2" and len(n.args) == 2:
                a0, b0 = span(n.args[0]); a1, b1 = span(n.args[1])
                add("arctan2-args-swapped", a0, b1, src[a1:b1] + src[b0:a1] + src[a0:b0], n.lineno)
            elif name in ("dot", "cross", "outer") and len(n.args) == 2:
                a0, b0 = span(n.args[0]); a1, b1 = span(n.args[1])
                add(f"{name}-args-swapped", a0, b1, src[a1:b1] + src[b0:a1] + src[a0:b0], n.lineno)
        elif isinstance(n, ast.Slice):
            if n.lower is not None and not isinstance(n.lower, ast.Constant):
                a, b = span(n.lower)
                add("slice-lower+1", a, b, f"({src[a:b]}) + 1", n.lineno)
            if n.upper is not None and not isinstance(n.upper, ast.Constant):
                a, b = span(n.upper)
                add("slice-upper-1", a, b, f"({src[a:b]}) - 1", n.lineno)
        elif isinstance(n, ast.Name) and isinstance(n.ctx, ast.Load) and n.id in ("min", "max"):
            a, b = span(n)
            add(f"{n.id}->{TWINS[n.id]}", a, b, TWINS[n.id], n.lineno)
    good = []
    for m in out:
        new_src = src[:m["a"]] + m["new"] + src[m["b"]:]
        try:
            ast.parse(new_src)
        except SyntaxError:
            continue
        m["id"] = hashlib.blake2b(f"{m['file']}:{m['a']}:{m['b']}:{m['new']}".encode(), digest_size=5).hexdigest()
        good.append(m)
    return good


def all_mutants(pid):
    mod = importlib.import_module(f"vmon.props.{pid}")
    seen, res = set(), []
    for a in mod.SPEC.get("anchors", []):
        try:
            ms = mutants_of(a)
        except (StopIteration, FileNotFoundError) as e:
            print(f"# {pid}: cannot locate {a}: {e!r}", file=sys.stderr)
            continue
        for m in ms:
            if m["id"] not in seen:
                seen.add(m["id"])
                res.append(m)
    return res


def sample(ms, k, seed):
    if k is None or len(ms) <= k:
        return ms
    rnd = random.Random(seed)
    by = {}
    for m in ms:
        by.setdefault((m["anchor"], m["kind"].split("-")[0][:5]), []).append(m)
    groups = sorted(by)
    for g in groups:
        rnd.shuffle(by[g])
    picked = []
    while len(picked) < k:           # round-robin over (function, operator family) so no family is starved
        progressed = False
        for g in groups:
            if by[g] and len(picked) < k:
                picked.append(by[g].pop())
                progressed = True
        if not progressed:
            break
    return picked


def run_one(pid, m):
    tmp = tempfile.mkdtemp(prefix="vmon_amut_")
    try:
        shutil.copytree(os.path.join(REPO, "PyMatterSim"), os.path.join(tmp, "PyMatterSim"), ignore=shutil.ignore_patterns("__pycache__"))
        os.symlink(os.path.join(REPO, "tests"), os.path.join(tmp, "tests"))
        p = os.path.join(tmp, m["file"])
        s = open(p).read()
        assert s[m["a"]:m["b"]] == m["old"]
        open(p, "w").write(s[:m["a"]] + m["new"] + s[m["b"]:])
        env = dict(os.environ, VERIF_REPO=tmp, VERIF_EVIDENCE_DIR=os.path.join(tmp, "ev"), VERIF_REPLAY_DIR=os.path.join(tmp, "rp"),
                   VERIF_FAILFAST="1")
        t = time.time()
        try:
            r = subprocess.run([os.path.join(VERIF, "check"), pid, "--tier", "quick"], env=env, capture_output=True, text=True, timeout=1500)
            rc, outp = r.returncode, r.stdout
        except subprocess.TimeoutExpired:
            rc, outp = 2, "timeout"
        keys = sorted({l.split("key=")[1].split(":")[0] for l in outp.splitlines() if "violation key=" in l})
        verdict = {1: "CAUGHT", 0: "MISSED"}.get(rc, "INCONCLUSIVE")
        return {**{k: m[k] for k in ("id", "anchor", "file", "kind", "line", "fn_line", "old", "new")}, "property": pid, "verdict": verdict,
                "wall_s": round(time.time() - t, 1), "keys": keys[:3],
                "reasons": [l for l in outp.splitlines() if l.startswith("INCONCLUSIVE")][:2]}
    finally:
        shutil.rmtree(tmp, ignore_errors=True)


def main():
    args = sys.argv[1:]
    j, mx, seed, outf, lst = 8, None, 0, None, False
    for flag in ("-j", "--max", "--seed", "--out"):
        if flag in args:
            i = args.index(flag); v = args[i + 1]; del args[i:i + 2]
            if flag == "-j": j = int(v)
            elif flag == "--max": mx = int(v)
            elif flag == "--seed": seed = int(v)
            else: outf = v
    if "--list" in args:
        args.remove("--list"); lst = True
    pids = args or [f"C{i:02d}" for i in range(1, 21)]
    res = []
    for pid in pids:
        # mutants are located right before the property is run: an edit to /repo in the meantime shifts offsets
        ms = all_mutants(pid)
        pick = sample(ms, mx, seed)
        print(f"# {pid}: {len(ms)} mutants over {len({m['anchor'] for m in ms})} anchored functions, running {len(pick)}", flush=True)
        if lst:
            for m in pick:
                print(pid, m["file"], m["line"], m["kind"], repr(m["old"]), "->", repr(m["new"]))
            continue
        with ThreadPoolExecutor(j) as ex:
            for r in ex.map(lambda m: run_one(pid, m), pick):
                print(f"{r['property']} {r['verdict']:12s} {r['wall_s']:6.1f}s {r['file']}:{r['line']} {r['kind']} {r['old']!r}->{r['new']!r} {','.join(r['keys'])}", flush=True)
                res.append(r)
        if outf:
            json.dump(res, open(outf, "w"), indent=1)
    if lst:
        return 0
    surv = [r for r in res if r["verdict"] != "CAUGHT"]
    print(f"{len(res) - len(surv)}/{len(res)} mutants caught; survivors: {len(surv)}")
    if outf:
        json.dump(res, open(outf, "w"), indent=1)
    return 0


if __name__ == "__main__":
    sys.exit(main())
