#!/usr/bin/env python3
"""Sensitivity self-test: apply each deliberate break to a scratch copy of the repository (outside /repo
and /verif, removed afterwards), run the quick check with VERIF_REPO=<copy>, expect exit 1.

usage: selftest/run_mutants.py [Cxx ...] [-j N] [--only name-substring]
"""
import importlib.util, json, os, shutil, subprocess, sys, tempfile, time
from concurrent.futures import ThreadPoolExecutor

HERE = os.path.dirname(os.path.abspath(__file__))
VERIF = os.path.dirname(HERE)
spec = importlib.util.spec_from_file_location("mutants", os.path.join(HERE, "mutants.py"))
mutants = importlib.util.module_from_spec(spec); spec.loader.exec_module(mutants)


def run_one(pid, m):
    name, rel, old, new = m[:4]
    checks = m[4] if len(m) > 4 else [pid]
    tmp = tempfile.mkdtemp(prefix="vmon_mut_")
    try:
        shutil.copytree("/repo/PyMatterSim", os.path.join(tmp, "PyMatterSim"), ignore=shutil.ignore_patterns("__pycache__"))
        os.symlink("/repo/tests", os.path.join(tmp, "tests"))
        p = os.path.join(tmp, "PyMatterSim", rel)
        s = open(p).read()
        if s.count(old) < 1:
            return pid, name, "PATCH-DOES-NOT-APPLY", 0.0, ""
        open(p, "w").write(s.replace(old, new, 1))
        out = {}
        for c in checks:
            env = dict(os.environ, VERIF_REPO=tmp, VERIF_EVIDENCE_DIR=os.path.join(tmp, "ev"), VERIF_REPLAY_DIR=os.path.join(tmp, "rp"))
            t = time.time()
            r = subprocess.run([os.path.join(VERIF, "check"), c, "--tier", "quick"], env=env, capture_output=True, text=True, timeout=1800)
            keys = sorted({l.split("key=")[1].split(":")[0] for l in r.stdout.splitlines() if "violation key=" in l})
            out[c] = (r.returncode, time.time() - t, keys)
        rc = max(v[0] for v in out.values())
        verdict = "CAUGHT" if any(v[0] == 1 for v in out.values()) else ("INCONCLUSIVE" if rc == 2 else "MISSED")
        return pid, name, verdict, sum(v[1] for v in out.values()), "; ".join(f"{c}:{','.join(v[2][:3])}" for c, v in out.items())
    finally:
        shutil.rmtree(tmp, ignore_errors=True)


def main():
    args = sys.argv[1:]
    j = 8
    only = None
    if "-j" in args:
        i = args.index("-j"); j = int(args[i + 1]); del args[i:i + 2]
    if "--only" in args:
        i = args.index("--only"); only = args[i + 1]; del args[i:i + 2]
    pids = args or sorted(mutants.MUTANTS)
    jobs = [(pid, m) for pid in pids for m in mutants.MUTANTS.get(pid, []) if not only or only in m[0]]
    res = []
    with ThreadPoolExecutor(j) as ex:
        for r in ex.map(lambda a: run_one(*a), jobs):
            print("%-4s %-34s %-22s %6.1fs  %s" % r, flush=True)
            res.append(r)
    missed = [r for r in res if r[2] != "CAUGHT"]
    print(f"{len(res) - len(missed)}/{len(res)} mutants caught")
    json.dump([list(r) for r in res], open(os.path.join(HERE, "last_results.json"), "w"), indent=1)
    return 1 if missed else 0


if __name__ == "__main__":
    sys.exit(main())
